// Engine E5: contexts (C13) and value life cycle (C14) on injected grammars.
#include <map>
#include "common/grammar_runner.hpp"
#include "common/templates_values.hpp"

// ===================================================================================================
// C13
template<class TT>
static Verdict check_c13(const GCase& c, Stats& st)
{
    using R = Runner<TT>;
    using PS = typename TT::parser_type;
    const Grammar& g = c.g;
    if (g.rules.empty()) return Verdict::discard("empty-grammar");
    if (g.uses_error()) return Verdict::discard("uses-error");
    Prepared pr;
    if (!R::prepare(g, pr)) return Verdict::discard(pr.why);
    if (pr.table.has_rr) return Verdict::discard("has-rr");
    try { R::inject(g); }
    catch (const std::exception& e) { vj::Value d = vj::Value::object(); d.set("exception", e.what()); return Verdict::fail(std::string("table construction threw: ") + e.what(), d); }
    const auto& slots = TT::slots();
    PS& p = R::parser();
    size_t interesting = 0;
    for (size_t k = 0; k < c.inputs.size(); ++k)
    {
        const gg::Input& in = c.inputs[k];
        Expect e = expect_for(pr, in);
        if (e.rr.hit_rr || e.rr.looped) continue;
        // expected functor calls (rules with a functor), in reduction order
        std::vector<std::pair<int, uint64_t>> expc; std::vector<int> exp_ctx;
        for (auto& cl : e.rr.calls) { int slot = g.rules[size_t(cl.first)].slot; if (slots[size_t(slot)].kind != 'd') expc.push_back({slot, cl.second}); if (slots[size_t(slot)].kind == 'c') exp_ctx.push_back(slot); }
        auto opts = ctpg::parse_options{}.set_skip_whitespace(in.skip_ws).set_skip_newline(in.skip_nl);
        std::string text = in.text;
        ctpg::buffers::string_view_buffer buf{std::string_view(text)};
        ctpg::utils::no_stream ns;
        auto fail = [&](const std::string& what, const char* category, vj::Value d = vj::Value::object()) { d.set("input_index", (unsigned long long)k); d.set("input", in.text); d.set("context_category", category); return Verdict::fail(what, d); };
        // common checks over one run's log
        auto verify = [&](const tpl::CallLog& log, const void* addr, bool want_const, bool want_lvalue, bool mutable_ctx, const char* category, std::string& what) -> bool
        {
            if (log.rules.size() != expc.size()) { what = "functor calls differ from the reductions of the parse"; return false; }
            long seen = 0;
            for (size_t i = 0; i < log.rules.size(); ++i)
            {
                const auto& rc = log.rules[i];
                if (rc.slot != expc[i].first || rc.value != expc[i].second) { what = "functor calls are not in reduction order"; return false; }
                const auto& sl = slots[size_t(rc.slot)];
                if (rc.args.size() != sl.pattern.size()) { what = "a functor received a wrong number of arguments (context handed to a '>=' functor?)"; return false; }
                for (auto& a : rc.args) if (a.unexpected) { what = "a functor received an argument that is not a right-side value"; return false; }
                if ((sl.kind == 'c') != rc.had_ctx) { what = "context passed to the wrong kind of functor"; return false; }
                if (rc.had_ctx)
                {
                    if (addr && rc.ctx_addr != addr) { what = "contextual functor did not receive the caller's object (different address)"; return false; }
                    if (rc.ctx_const != want_const) { what = "context constness changed"; return false; }
                    if (rc.ctx_lvalue != want_lvalue) { what = "context value category changed"; return false; }
                    if (rc.ctx_seen == -2) { what = "context object arrived corrupted or moved-from"; return false; }
                    if (mutable_ctx && rc.ctx_seen != seen) { what = "mutations made by earlier functors are not visible to later ones"; return false; }
                    if (!mutable_ctx && want_const && rc.ctx_seen != 0) { what = "const context changed"; return false; }
                    ++seen;
                }
            }
            (void)category;
            return true;
        };
        std::string what;
        uint64_t v_plain = 0; bool has_plain = false;
        try
        {
            // plain parse
            { tpl::CallLog log; tpl::g_log = &log; auto r = p.parse(opts, buf, ns); tpl::g_log = nullptr; has_plain = r.has_value(); if (has_plain) v_plain = r.value().get_value().h;
              if (has_plain != e.rr.accepted) return fail("parse outcome differs from the reference", "none"); }
#ifndef VALUES_MOVE_ONLY
            // (a) non-const lvalue
            { tpl::Ctx ctx; tpl::CallLog log; tpl::g_log = &log; auto r = p.context_parse(ctx, opts, buf, ns); tpl::g_log = nullptr;
              if (!verify(log, &ctx, false, true, true, "non-const&", what)) return fail(what, "non-const&");
              if (ctx.seen != exp_ctx) return fail("mutations made through the non-const context are not what the caller sees afterwards", "non-const&");
              if (r.has_value() != has_plain || (has_plain && r.value().get_value().h != v_plain)) return fail("parse and context_parse disagree", "non-const&"); }
            // (a2)/(a3) the shorter overloads (default options): context_parse(ctx, buffer) and context_parse(ctx, buffer, stream)
            if (in.skip_ws && in.skip_nl)
            {
                { tpl::Ctx ctx; tpl::CallLog log; tpl::g_log = &log; auto r = p.context_parse(ctx, buf); tpl::g_log = nullptr;
                  if (!verify(log, &ctx, false, true, true, "non-const& (ctx, buffer)", what)) return fail(what, "non-const& through context_parse(ctx, buffer)");
                  if (ctx.seen != exp_ctx) return fail("mutations made through the non-const context are not what the caller sees afterwards", "non-const& through context_parse(ctx, buffer)");
                  if (r.has_value() != has_plain || (has_plain && r.value().get_value().h != v_plain)) return fail("parse and context_parse disagree", "context_parse(ctx, buffer)"); }
                { tpl::Ctx ctx; tpl::CallLog log; tpl::g_log = &log; std::ostringstream os3; auto r = p.context_parse(ctx, buf, os3); tpl::g_log = nullptr;
                  if (!verify(log, &ctx, false, true, true, "non-const& (ctx, buffer, stream)", what)) return fail(what, "non-const& through context_parse(ctx, buffer, stream)");
                  if (ctx.seen != exp_ctx) return fail("mutations made through the non-const context are not what the caller sees afterwards", "non-const& through context_parse(ctx, buffer, stream)");
                  if (r.has_value() != has_plain || (has_plain && r.value().get_value().h != v_plain)) return fail("parse and context_parse disagree", "context_parse(ctx, buffer, stream)"); }
                { const tpl::Ctx ctx; tpl::CallLog log; tpl::g_log = &log; std::ostringstream os3; auto r = p.context_parse(ctx, buf, os3); tpl::g_log = nullptr;
                  if (!verify(log, &ctx, true, true, false, "const& (ctx, buffer, stream)", what)) return fail(what, "const& through context_parse(ctx, buffer, stream)");
                  (void)r; }
            }
            // (e) a small trivially copyable context (two ints) by non-const and by const reference, (f) a raw pointer as the context object
            { tpl::PodCtx pc; tpl::CallLog log; tpl::g_log = &log; auto r = p.context_parse(pc, opts, buf, ns); tpl::g_log = nullptr;
              if (!verify(log, &pc, false, true, true, "small trivially copyable struct&", what)) return fail(what, "small trivially copyable struct&");
              if (size_t(pc.count) != exp_ctx.size() || (!exp_ctx.empty() && pc.last != exp_ctx.back())) return fail("mutations made through the non-const context are not what the caller sees afterwards", "small trivially copyable struct&");
              if (r.has_value() != has_plain || (has_plain && r.value().get_value().h != v_plain)) return fail("parse and context_parse disagree", "small trivially copyable struct&"); }
            { const tpl::PodCtx pc{}; tpl::CallLog log; tpl::g_log = &log; auto r = p.context_parse(pc, opts, buf, ns); tpl::g_log = nullptr; (void)r;
              if (!verify(log, &pc, true, true, false, "const small trivially copyable struct&", what)) return fail(what, "const small trivially copyable struct&"); }
            { tpl::Ctx target; tpl::Ctx* ptr = &target; tpl::CallLog log; tpl::g_log = &log; auto r = p.context_parse(ptr, opts, buf, ns); tpl::g_log = nullptr;
              if (!verify(log, &ptr, false, true, true, "raw pointer (lvalue)", what)) return fail(what, "raw pointer (lvalue)");
              if (target.seen != exp_ctx || ptr != &target) return fail("mutations made through the context are not what the caller sees afterwards", "raw pointer (lvalue)");
              if (r.has_value() != has_plain || (has_plain && r.value().get_value().h != v_plain)) return fail("parse and context_parse disagree", "raw pointer (lvalue)"); }
            // (b) const lvalue
            { const tpl::Ctx ctx; tpl::CallLog log; tpl::g_log = &log; auto r = p.context_parse(ctx, opts, buf, ns); tpl::g_log = nullptr;
              if (!verify(log, &ctx, true, true, false, "const&", what)) return fail(what, "const&");
              if (!ctx.seen.empty()) return fail("const context was modified", "const&");
              if (r.has_value() != has_plain || (has_plain && r.value().get_value().h != v_plain)) return fail("parse and context_parse disagree", "const&"); }
            // (c) rvalue
            { tpl::Ctx ctx; tpl::CallLog log; tpl::g_log = &log; auto r = p.context_parse(std::move(ctx), opts, buf, ns); tpl::g_log = nullptr;
              if (!verify(log, &ctx, false, false, true, "rvalue", what)) return fail(what, "rvalue");
              if (ctx.seen != exp_ctx) return fail("rvalue context: the object the functors saw is not the caller's object", "rvalue");
              if (r.has_value() != has_plain || (has_plain && r.value().get_value().h != v_plain)) return fail("parse and context_parse disagree", "rvalue"); }
#else
            // (d) move-only rvalue (own build: a library change that copies the context must show as 'move-only contexts no longer compile')
            { tpl::MCtx ctx; tpl::CallLog log; tpl::g_log = &log; auto r = p.context_parse(std::move(ctx), opts, buf, ns); tpl::g_log = nullptr;
              if (!verify(log, &ctx, false, false, true, "move-only rvalue", what)) return fail(what, "move-only rvalue");
              if (ctx.seen != exp_ctx) return fail("move-only context: the object the functors saw is not the caller's object", "move-only rvalue");
              if (r.has_value() != has_plain || (has_plain && r.value().get_value().h != v_plain)) return fail("parse and context_parse disagree", "move-only rvalue"); }
#endif
        }
        catch (const std::exception& ex) { tpl::g_log = nullptr; vj::Value d = vj::Value::object(); d.set("exception", ex.what()); return fail("parse threw", "?", d); }
        st.sub_evaluations += st.counting ? 8 : 0;
        if (exp_ctx.size() >= 3) ++interesting;
    }
    if (interesting && st.counting && st.nontriv(eng::hcomb(g.hash(), c.inputs.size())))
    {
        labels_for(g, pr, st, c); st.label("nontrivial");
        if (st.want_sample()) { vj::Value s = vj::Value::object(); s.set("grammar", g.show()); s.set("template", TT::name()); s.set("inputs_with_>=3_contextual_reductions", (unsigned long long)interesting); st.sample(s); }
    }
    return Verdict::pass();
}

struct P_C13
{
    using Case = GCase;
#ifdef VALUES_MOVE_ONLY
    static const char* id() { return "C13m"; }
#else
    static const char* id() { return "C13"; }
#endif
    static Case gen(Choice& ch) { gg::prefer_kind() = 'c'; Case c = gen_case(ch, gg::ANY, 10, false, true); gg::prefer_kind() = 0; return c; }
    static vj::Value to_json(const Case& c) { return gcase_to_json(c); }
    static Case from_json(const vj::Value& v) { return gcase_from_json(v); }
    static std::vector<Case> shrinks(const Case& c, const vj::Value& d) { return gcase_shrinks(c, d); }
    static Verdict eval(const Case& c, Stats& st) { return c.tmpl == 0 ? check_c13<TT36>(c, st) : check_c13<TT20>(c, st); }
};

// ===================================================================================================
// C14
template<class TT>
static Verdict check_c14(const GCase& c, Stats& st)
{
    using PS = typename TT::parser_type;
    using NV = typename TT::value;
    const Grammar& g = c.g;
    if (g.rules.empty()) return Verdict::discard("empty-grammar");
    Prepared pr;
    pr.an = ref::analyse(g);
    pr.table = ref::build_lr1(g, pr.an, access::state_cap<PS>() + 1);
    if (pr.table.states.size() > access::state_cap<PS>() || pr.table.cells.size() != pr.table.states.size()) return Verdict::discard("template-cap-states");
    if (pr.table.max_items > access::sit_cap<PS>()) return Verdict::discard("template-cap-items");
    if (pr.table.has_rr) return Verdict::discard("has-rr");
    PS& p = *TT::instance();
    static const auto patterns = tpl::patterns_of(TT::slots());
    try { access::inject(p, g, tpl::T36_PARK, patterns, [](bool h, int prec) { return TT::dsl_prec(h, prec); }, [](int t, int pr, int as) { return TT::dsl_term(t, pr, as); }); }
    catch (const std::exception& e) { vj::Value d = vj::Value::object(); d.set("exception", e.what()); return Verdict::fail(std::string("table construction threw: ") + e.what(), d); }
    const auto& slots = TT::slots();
    size_t interesting = 0; std::vector<std::string> case_labels;
    for (size_t k = 0; k < c.inputs.size(); ++k)
    {
        const gg::Input& in = c.inputs[k];
        Expect e = expect_for(pr, in);
        if (e.rr.hit_rr || e.rr.looped) continue;
        auto fail = [&](const std::string& what, vj::Value d = vj::Value::object()) { d.set("input_index", (unsigned long long)k); d.set("input", in.text); d.set("template", TT::name()); return Verdict::fail(what, d); };
        tv::reg().reset(); tv::Log log; tv::g_log = &log;
        bool has = false; uint64_t value = 0; bool threw = false; std::string exc;
        {
            std::string text = in.text; ctpg::utils::no_stream ns;
            try
            {
                auto r = p.parse(ctpg::parse_options{}.set_skip_whitespace(in.skip_ws).set_skip_newline(in.skip_nl), ctpg::buffers::string_view_buffer{std::string_view(text)}, ns);
                has = r.has_value(); if (has) { value = r.value().h; if (r.value().moved_from) { tv::g_log = nullptr; return fail("the returned value is a moved-from object"); } }
            }
            catch (const std::exception& ex) { threw = true; exc = ex.what(); }
        }
        tv::g_log = nullptr;
        st.sub_evaluations += st.counting ? 1 : 0;
        const tv::Registry& rg = tv::reg();
        vj::Value d = vj::Value::object(); d.set("constructions", rg.constructions); d.set("destructions", rg.destructions); d.set("copies", rg.copies); d.set("nonterminal_value_copies", rg.nterm_copies); d.set("live_after_parse", (unsigned long long)rg.live.size());
        if (threw) { d.set("exception", exc); return fail("parse threw", d); }
        if (has != e.rr.accepted) return fail("parse outcome differs from the reference", d);
        if (has && value != e.rr.value) return fail("result value differs from the reference", d);
        if (!rg.live.empty() || rg.constructions != rg.destructions) return fail(rg.constructions > rg.destructions ? "a semantic value was leaked (never destroyed)" : "a semantic value was destroyed more than once", d);
        if (rg.destroy_unknown) return fail("destructor ran on something that is not a live value", d);
        if (rg.nterm_copies != 0) return fail("a nonterminal value was copied", d);
        if (rg.copies > log.term_calls) { d.set("term_functor_calls", log.term_calls); return fail("term payloads were copied more often than once each (term_value's own construction)", d); }
        std::set<long> consumed;
        for (auto& cl : log.calls)
        {
            const auto& sl = slots[size_t(cl.slot)];
            if (cl.args.size() != sl.pattern.size()) return fail("a functor received a wrong number of arguments", d);
            for (auto& a : cl.args)
            {
                if (a.unexpected) return fail("a functor received an argument that is not a right-side value", d);
                if (a.is_err) continue;
                if (a.moved_from) { d.set("slot", cl.slot); return fail("a value was handed to a functor after having been moved from", d); }
                if (!a.rvalue) { d.set("slot", cl.slot); return fail("a value was not passed as an rvalue (cannot be moved from)", d); }
                if (!consumed.insert(a.vid).second) { d.set("slot", cl.slot); d.set("vid", a.vid); return fail("a semantic value was consumed by more than one functor call", d); }
            }
        }
        bool discarded = !has || !e.rr.error_tokens.empty();
        bool arity3 = false; for (auto& cl : log.calls) if (cl.args.size() >= 3) arity3 = true;
        if (rg.constructions >= 5 && (discarded || arity3)) { ++interesting; if (!has) case_labels.push_back("failure-path"); if (e.rr.recovered) case_labels.push_back("recovery-path"); if (has && e.rr.error_tokens.empty()) case_labels.push_back("success-path"); }
    }
    if (interesting && st.counting && st.nontriv(eng::hcomb(g.hash(), c.inputs.size())))
    {
        labels_for(g, pr, st, c); st.label("nontrivial"); st.label(std::string("template:") + TT::name());
        std::sort(case_labels.begin(), case_labels.end()); case_labels.erase(std::unique(case_labels.begin(), case_labels.end()), case_labels.end());
        for (auto& l : case_labels) st.label(l);
        if (st.want_sample()) { vj::Value s = vj::Value::object(); s.set("grammar", g.show()); s.set("template", TT::name()); s.set("nontrivial_inputs", (unsigned long long)interesting); s.set("example_input", c.inputs.empty() ? std::string() : c.inputs.back().text); st.sample(s); }
    }
    return Verdict::pass();
}

struct P_C14
{
    using Case = GCase;
#ifdef VALUES_MOVE_ONLY
    static const char* id() { return "C14m"; }
#else
    static const char* id() { return "C14"; }
#endif
    static Case gen(Choice& ch)
    {
        // 2 = TK with copyable nonterminal values, 3 = TK with move-only nonterminal values (separate build: -DVALUES_MOVE_ONLY,
        // so that a library change that copies values shows up as "move-only value types no longer compile" = violation, not as a harness failure)
#ifdef VALUES_MOVE_ONLY
        GCase c; c.tmpl = 3;
#else
        GCase c; c.tmpl = 2;
#endif
        c.g = gg::gen_grammar(ch, ch.chance(1, 2) ? gg::RECOVERY : gg::ANY, c.strategy, tv::tk_slots());
        eng::Rng rng = ch.fork();
        ref::Analysis an = ref::analyse(c.g);
        gg::gen_inputs(c.g, an, rng, 40 + ch.below(6) * 40, 12, c.inputs);
        if (ch.chance(1, 4))
        {   // a sentence deep enough for the value stack to reallocate (1024, 2048 entries)
            std::vector<int> toks; size_t n = 1030 + ch.below(4) * 520;
            if (gg::deep_sentence(c.g, an, n, rng, toks)) c.inputs.push_back(gg::Input{gg::render(toks, nullptr)});
        }
        return c;
    }
    static vj::Value to_json(const Case& c) { vj::Value v = gcase_to_json(c); v.set("template", c.tmpl == 3 ? "TKm" : "TKc"); return v; }
    static Case from_json(const vj::Value& v) { Case c = gcase_from_json(v); c.tmpl = v.at("template").as_str() == "TKm" ? 3 : 2; return c; }
    static std::vector<Case> shrinks(const Case& c, const vj::Value& d) { return gcase_shrinks(c, d); }
#ifdef VALUES_MOVE_ONLY
    static Verdict eval(const Case& c, Stats& st) { return check_c14<tv::TK<tv::TrackedT<false>>>(c, st); }
#else
    static Verdict eval(const Case& c, Stats& st) { return check_c14<tv::TK<tv::TrackedT<true>>>(c, st); }
#endif
};


// ---------------------------------------------------------------------------------------------------
// C13t: a statement language written in the DSL whose statement nonterminals carry NO value (nterm<no_type>) and whose only effect is on
// the caller's context: every rule functor ('>>=' and '>=') of such nonterminals must still run, in reduction order, on the caller's object.
namespace sc
{
using namespace ctpg; using namespace ctpg::ftors;
struct SCtx
{
    std::vector<std::string> log; std::map<std::string, int> vars; std::vector<int> printed; std::vector<const void*> addrs;
    SCtx() = default; SCtx(const SCtx&) = delete; SCtx& operator=(const SCtx&) = delete;
    void at(const void* self) { addrs.push_back(self); }
};
inline thread_local long g_plain_calls = 0;      // calls of '>=' functors attached to valueless nonterminals
constexpr char s_ident[] = "[a-z]+"; constexpr char s_number[] = "[0-9]+";
struct s_limits { static const size_t state_count_cap = 120; static const size_t max_sit_count_per_state_cap = 200; };
inline const auto& parser_s()
{
    static const auto* p = []
    {
        constexpr nterm<no_type> prog("prog"), stmt("stmt"); constexpr nterm<int> expr("expr");
        constexpr regex_term<s_ident> ident("ident"); constexpr regex_term<s_number> number("number");
        constexpr char_term plus('+', 1, associativity::ltor);
        return new parser(
            prog, terms("let", "print", ident, number, '=', ';', plus), nterms(prog, stmt, expr),
            rules(
                prog() >>= [](SCtx& c) { c.at(&c); c.log.push_back("start"); return no_type{}; },
                prog(prog, stmt) >= [](no_type, no_type) { ++g_plain_calls; return no_type{}; },
                stmt("let", ident, '=', expr, ';') >>= [](SCtx& c, skip, std::string_view id, skip, int v, skip) { c.at(&c); c.vars[std::string(id)] = v; c.log.push_back("let:" + std::string(id) + "=" + std::to_string(v)); return no_type{}; },
                stmt("print", expr, ';') >>= [](SCtx& c, skip, int v, skip) { c.at(&c); c.printed.push_back(v); c.log.push_back("print:" + std::to_string(v)); return no_type{}; },
                stmt(';') >= [](skip) { ++g_plain_calls; return no_type{}; },
                expr(expr, '+', expr) >= [](int a, skip, int b) { return (a + b) % 1000000; },
                expr(number) >= [](std::string_view sv) { int v = 0; for (char ch : sv) v = (v * 10 + (ch - '0')) % 1000000; return v; },
                expr(ident) >>= [](SCtx& c, std::string_view id) { c.at(&c); c.log.push_back("get:" + std::string(id)); auto it = c.vars.find(std::string(id)); return it == c.vars.end() ? 0 : it->second; }
            ),
            use_generated_lexer{}, s_limits{});
    }();
    return *p;
}
// independent evaluation of the text
struct Want { bool ok = false; std::vector<std::string> log; std::map<std::string, int> vars; std::vector<int> printed; long plain = 0; size_t contextual = 0; };
inline Want eval_s(const std::string& text)
{
    Want w; w.log.push_back("start"); w.contextual = 1;
    struct Tok { int k; std::string s; };      // 0 let 1 print 2 ident 3 number 4 '=' 5 ';' 6 '+'
    std::vector<Tok> toks;
    for (size_t i = 0; i < text.size();)
    {
        unsigned char c = (unsigned char)text[i];
        if (c == ' ' || c == '\t' || c == '\n' || c == '\r' || c == '\v' || c == '\f') { ++i; continue; }
        if (c >= 'a' && c <= 'z') { size_t j = i; while (j < text.size() && text[j] >= 'a' && text[j] <= 'z') ++j; std::string s = text.substr(i, j - i); toks.push_back(Tok{s == "let" ? 0 : s == "print" ? 1 : 2, s}); i = j; continue; }
        if (c >= '0' && c <= '9') { size_t j = i; while (j < text.size() && text[j] >= '0' && text[j] <= '9') ++j; toks.push_back(Tok{3, text.substr(i, j - i)}); i = j; continue; }
        if (c == '=') { toks.push_back(Tok{4, "="}); ++i; continue; }
        if (c == ';') { toks.push_back(Tok{5, ";"}); ++i; continue; }
        if (c == '+') { toks.push_back(Tok{6, "+"}); ++i; continue; }
        return w;
    }
    size_t p = 0;
    auto expr = [&](int& v) -> bool
    {
        auto atom = [&](int& a) -> bool
        {
            if (p < toks.size() && toks[p].k == 3) { a = 0; for (char ch : toks[p].s) a = (a * 10 + (ch - '0')) % 1000000; ++p; return true; }
            if (p < toks.size() && toks[p].k == 2) { w.log.push_back("get:" + toks[p].s); ++w.contextual; auto it = w.vars.find(toks[p].s); a = it == w.vars.end() ? 0 : it->second; ++p; return true; }
            return false;
        };
        if (!atom(v)) return false;
        while (p < toks.size() && toks[p].k == 6) { ++p; int b; if (!atom(b)) return false; v = (v + b) % 1000000; }
        return true;
    };
    while (p < toks.size())
    {
        if (toks[p].k == 5) { ++p; w.plain += 2; continue; }       // stmt(';') and prog(prog, stmt)
        if (toks[p].k == 0)
        {
            ++p; if (p >= toks.size() || toks[p].k != 2) return w; std::string id = toks[p].s; ++p;
            if (p >= toks.size() || toks[p].k != 4) return w; ++p;
            int v; if (!expr(v)) return w; if (p >= toks.size() || toks[p].k != 5) return w; ++p;
            w.vars[id] = v; w.log.push_back("let:" + id + "=" + std::to_string(v)); ++w.contextual; w.plain += 1; continue;
        }
        if (toks[p].k == 1)
        {
            ++p; int v; if (!expr(v)) return w; if (p >= toks.size() || toks[p].k != 5) return w; ++p;
            w.printed.push_back(v); w.log.push_back("print:" + std::to_string(v)); ++w.contextual; w.plain += 1; continue;
        }
        return w;
    }
    w.ok = true;
    return w;
}
}

struct P_C13t
{
    struct Case { std::vector<std::string> inputs; };
    static const char* id() { return "C13t"; }
    static Case gen(Choice& ch)
    {
        Case c; eng::Rng rng = ch.fork(); int n = 3 + int(ch.below(8));
        static const char* ids[] = {"a", "b", "x", "total", "le", "lett", "printer", "pr"};
        for (int i = 0; i < n; ++i)
        {
            std::string s; size_t k = rng.chance(1, 25) ? 400 + rng.below(800) : rng.below(9);
            auto sp = [&]() { return std::string(rng.chance(1, 3) ? (rng.chance(1, 3) ? "\n" : " ") : ""); };
            auto expr = [&]() { std::string e; int m = 1 + int(rng.below(4)); for (int j = 0; j < m; ++j) { if (j) e += sp() + "+" + sp(); if (rng.chance(1, 2)) e += std::to_string(rng.below(1000)); else e += ids[rng.below(8)]; } return e; };
            for (size_t j = 0; j < k; ++j)
            {
                switch (rng.below(5))
                {
                case 0: s += ";"; break;
                case 1: case 2: s += "let " + std::string(ids[rng.below(8)]) + sp() + "=" + sp() + expr() + sp() + ";"; break;
                default: s += "print " + expr() + sp() + ";"; break;
                }
                s += sp();
            }
            if (rng.chance(1, 5) && !s.empty()) { size_t pos = rng.below(uint32_t(s.size())); switch (rng.below(3)) { case 0: s.erase(pos, 1); break; case 1: s.insert(pos, 1, ";=+ a7#"[rng.below(7)]); break; default: s[pos] = ";=+ a7"[rng.below(6)]; break; } }
            c.inputs.push_back(s);
        }
        return c;
    }
    static vj::Value to_json(const Case& c) { vj::Value o = vj::Value::object(); o.set("kind", "fixed-parser-S(valueless statement nonterminals, contextual functors)"); vj::Value a = vj::Value::array(); for (auto& s : c.inputs) a.push(s); o.set("inputs", a); return o; }
    static Case from_json(const vj::Value& v) { Case c; for (size_t i = 0; i < v.at("inputs").size(); ++i) c.inputs.push_back(v.at("inputs").at(i).as_str()); return c; }
    static std::vector<Case> shrinks(const Case& c, const vj::Value& d)
    {
        std::vector<Case> out;
        if (d.has("input_index") && c.inputs.size() > 1) { size_t k = size_t(d.at("input_index").as_int()); if (k < c.inputs.size()) { Case x; x.inputs = {c.inputs[k]}; out.push_back(x); } }
        if (c.inputs.size() == 1) { const std::string& s = c.inputs[0]; for (size_t chunk = std::max<size_t>(s.size() / 2, 1); ; chunk /= 2) { for (size_t p = 0; p + chunk <= s.size(); p += chunk) { Case x = c; x.inputs[0].erase(p, chunk); out.push_back(x); } if (chunk <= 1) break; } }
        return out;
    }
    static Verdict eval(const Case& c, Stats& st)
    {
        size_t interesting = 0;
        for (size_t k = 0; k < c.inputs.size(); ++k)
        {
            const std::string& text = c.inputs[k];
            sc::Want w = sc::eval_s(text);
            sc::SCtx ctx; sc::g_plain_calls = 0; ctpg::utils::no_stream ns; bool threw = false, has = false; std::string exc;
            try { auto r = sc::parser_s().context_parse(ctx, ctpg::parse_options{}, ctpg::buffers::string_view_buffer(std::string_view(text)), ns); has = r.has_value(); }
            catch (const std::exception& e) { threw = true; exc = e.what(); }
            st.sub_evaluations += st.counting ? 1 : 0;
            vj::Value d = vj::Value::object(); d.set("input_index", (unsigned long long)k); d.set("input", text.size() > 500 ? text.substr(0, 500) + "..." : text);
            if (threw) { d.set("exception", exc); return Verdict::fail("context_parse threw", d); }
            if (has != w.ok) { d.set("expected_accept", w.ok); return Verdict::fail("acceptance differs from the grammar", d); }
            for (const void* a : ctx.addrs) if (a != &ctx) return Verdict::fail("a contextual functor did not receive the caller's object (different address)", d);
            if (!w.ok) continue;
            if (ctx.log != w.log)
            {
                vj::Value a = vj::Value::array(); for (size_t i = 0; i < w.log.size() && i < 30; ++i) a.push(w.log[i]); vj::Value b = vj::Value::array(); for (size_t i = 0; i < ctx.log.size() && i < 30; ++i) b.push(ctx.log[i]);
                d.set("expected_events", a); d.set("observed_events", b);
                return Verdict::fail("functors attached with '>>=' (also those of nonterminals without a value) were not all called in reduction order with the caller's context", d);
            }
            if (ctx.vars != w.vars || ctx.printed != w.printed) return Verdict::fail("mutations made through the context are not what the caller sees afterwards", d);
            if (sc::g_plain_calls != w.plain) { d.set("expected_calls", (long long)w.plain); d.set("observed_calls", (long long)sc::g_plain_calls); return Verdict::fail("'>=' functors of nonterminals without a value were not called once per reduction", d); }
            if (w.contextual >= 3) ++interesting;
        }
        if (interesting && st.counting && st.nontriv(eng::hstr(to_json(c).dump()))) { st.label("nontrivial"); st.label("fixed-parser:S(valueless nonterminals)"); if (st.want_sample()) { vj::Value s = vj::Value::object(); vj::Value a = vj::Value::array(); for (auto& x : c.inputs) if (x.size() < 100) a.push(x); s.set("inputs", a); st.sample(s); } }
        return Verdict::pass();
    }
};

int main(int argc, char** argv)
{
    eng::Args a = eng::parse_args(argc, argv);
    int rc = 2;
    eng::on_big_stack([&]
    {
        if (a.prop == "C13" || a.prop == "C13m") rc = eng::run_property<P_C13>(a);
        else if (a.prop == "C14" || a.prop == "C14m") rc = eng::run_property<P_C14>(a);
        else if (a.prop == "C13t") rc = eng::run_property<P_C13t>(a);
        else { fprintf(stderr, "unknown --prop %s\n", a.prop.c_str()); rc = 2; }
    });
    return rc;
}

// Engine E8 (C19): helper functors. Every rapidcheck case enumerates the whole position space
//   arity 1..9 x every valid position (_eN, construct<T,I>), every ordered pair C != A (push_back / emplace_back),
//   val / create at every arity, x argument categories (all rvalues as the parser passes them, all lvalues, const lvalues, mixed),
// with random tagged contents. Oracle: identity of the forwarded object, no copies where none are allowed, untouched other arguments.
#include <ctpg/ctpg.hpp>
#include <tuple>
#include "common/engine.hpp"
#include <array>

using eng::Choice; using eng::Stats; using eng::Verdict;

namespace h
{
struct Counters { long copies = 0, moves = 0; };
inline Counters& cnt() { static Counters c; return c; }

struct Tag
{
    int id = 0; bool moved_from = false;
    Tag() = default;
    explicit Tag(int id) : id(id) {}
    Tag(const Tag& o) : id(o.id), moved_from(o.moved_from) { cnt().copies++; }
    Tag(Tag&& o) noexcept : id(o.id), moved_from(o.moved_from) { cnt().moves++; o.moved_from = true; }
    Tag& operator=(const Tag& o) { id = o.id; moved_from = o.moved_from; cnt().copies++; return *this; }
    Tag& operator=(Tag&& o) noexcept { id = o.id; moved_from = o.moved_from; cnt().moves++; o.moved_from = true; return *this; }
    // a helper that picks the wrong position would use a tag as the container: keep that a run-time failure, not a build failure
    template<class X> void emplace_back(X&&) { moved_from = true; }
    template<class X> void push_back(const X&) { moved_from = true; }
};
struct MTag     // move-only
{
    int id = 0; bool moved_from = false;
    MTag() = default;
    explicit MTag(int id) : id(id) {}
    MTag(const MTag&) = delete;
    MTag& operator=(const MTag&) = delete;
    MTag(MTag&& o) noexcept : id(o.id), moved_from(o.moved_from) { cnt().moves++; o.moved_from = true; }
    MTag& operator=(MTag&& o) noexcept { id = o.id; moved_from = o.moved_from; cnt().moves++; o.moved_from = true; return *this; }
    template<class X> void emplace_back(X&&) { moved_from = true; }
    template<class X> void push_back(const X&) { moved_from = true; }
};
template<class T> struct Built { T t; explicit Built(T&& x) : t(std::move(x)) {} explicit Built(const T& x) : t(x) {} };
template<class T> struct Built2 { T t; };   // aggregate: construct<T,I> uses T{arg}

// container with identity and counters
template<class T>
struct Cont
{
    std::vector<T> v; int id = 0; bool moved_from = false;
    static long& copies() { static long c = 0; return c; }
    Cont() = default;
    explicit Cont(int id) : id(id) {}
    Cont(const Cont& o) : v(), id(o.id), moved_from(o.moved_from) { copies()++; if constexpr (std::is_copy_constructible_v<T>) v = o.v; }
    Cont(Cont&& o) noexcept : v(std::move(o.v)), id(o.id), moved_from(o.moved_from) { o.moved_from = true; }
    int pb_calls = 0, eb_calls = 0;      // README: push_back "calls push_back on" the list, emplace_back "works similarly" (calls emplace_back: direct-initialisation, explicit constructors count)
    void push_back(const T& x) { ++pb_calls; if constexpr (std::is_copy_constructible_v<T>) v.push_back(x); }
    void push_back(T&& x) { ++pb_calls; v.push_back(std::move(x)); }
    void emplace_back(T&& x) { ++eb_calls; v.emplace_back(std::move(x)); }
};

// argument categories: 0 all rvalue (what the parser does), 1 all lvalue, 2 all const lvalue, 3 target rvalue / others lvalue, 4 target lvalue / others rvalue
template<int Cat, bool IsTarget, class T>
decltype(auto) pass(T& t)
{
    if constexpr (Cat == 0) return std::move(t);
    else if constexpr (Cat == 1) return (t);
    else if constexpr (Cat == 2) return static_cast<const T&>(t);
    else if constexpr (Cat == 3) { if constexpr (IsTarget) return std::move(t); else return (t); }
    else { if constexpr (IsTarget) return (t); else return std::move(t); }
}

struct Fail { bool failed = false; std::string what; };
struct Run
{
    const std::vector<int>& ids; Stats& st; Fail f; unsigned long checks = 0;
    void fail(const std::string& w) { if (!f.failed) { f.failed = true; f.what = w; } }
    void item(const char* kind, size_t arity, size_t a, size_t b, int cat)
    {
        ++checks;
        if (st.counting) { uint64_t hsh = eng::hcomb(eng::hcomb(eng::hstr(kind), arity * 100 + a * 10 + b), uint64_t(cat)); if (st.nontriv(hsh)) st.label(std::string("space:") + kind); }
    }
    static std::string where(const char* kind, size_t arity, size_t a, size_t b, int cat)
    { return std::string(kind) + " arity=" + std::to_string(arity) + " pos=" + std::to_string(a) + (b ? "," + std::to_string(b) : "") + " category=" + std::to_string(cat); }
};

template<class T, size_t K>
std::array<T, K> make_args(const std::vector<int>& ids)
{
    std::array<T, K> a;
    for (size_t i = 0; i < K; ++i) a[i] = T(ids[i % ids.size()] * 16 + int(i));
    return a;
}
template<class T, size_t K>
bool others_untouched(const std::array<T, K>& a, const std::vector<int>& ids, size_t skip1, size_t skip2 = size_t(-1))
{
    for (size_t i = 0; i < K; ++i)
    {
        if (i == skip1 || i == skip2) continue;
        if (a[i].moved_from || a[i].id != ids[i % ids.size()] * 16 + int(i)) return false;
    }
    return true;
}

// ---- _eN -------------------------------------------------------------------------------------------
template<size_t K, size_t N, int Cat, class T, size_t... I>
void element_one(Run& r, std::index_sequence<I...>)
{
    if constexpr (Cat != 0 && !std::is_copy_constructible_v<T>) return;
    else
    {
        r.item(std::is_same_v<T, Tag> ? "_eN" : "_eN(move-only)", K, N, 0, Cat);
        auto args = make_args<T, K>(r.ids);
        // the documented objects _e1 .. _e9 themselves (not a functor type the harness picks by N)
        const auto& en = std::get<N - 1>(std::tie(ctpg::ftors::_e1, ctpg::ftors::_e2, ctpg::ftors::_e3, ctpg::ftors::_e4, ctpg::ftors::_e5, ctpg::ftors::_e6, ctpg::ftors::_e7, ctpg::ftors::_e8, ctpg::ftors::_e9));
        using F = std::decay_t<decltype(en)>;
        if constexpr (!std::is_invocable_v<F, decltype(pass<Cat, I + 1 == N>(args[I]))...>) { r.fail(Run::where("_eN not invocable at a valid position", K, N, 0, Cat)); return; }
        else
        {
            cnt() = Counters{};
            decltype(auto) res = en(pass<Cat, I + 1 == N>(args[I])...);
            static_assert(std::is_reference_v<decltype(res)>, "_eN forwards (returns a reference)");
            if (&res != &args[N - 1]) r.fail(Run::where("_eN does not return the N-th argument", K, N, 0, Cat));
            if (cnt().copies || cnt().moves) r.fail(Run::where("_eN copied or moved an argument", K, N, 0, Cat));
            constexpr bool target_rvalue = Cat == 0 || Cat == 3;
            if (std::is_rvalue_reference_v<decltype(res)> != target_rvalue) r.fail(Run::where("_eN changed the value category of the forwarded argument", K, N, 0, Cat));
            if (!others_untouched(args, r.ids, size_t(-1))) r.fail(Run::where("_eN touched an argument", K, N, 0, Cat));
        }
    }
}
// ---- construct<T,I> ---------------------------------------------------------------------------------
template<size_t K, size_t N, int Cat, class T, size_t... I>
void construct_one(Run& r, std::index_sequence<I...>)
{
    if constexpr (Cat != 0 && !std::is_copy_constructible_v<T>) return;
    else
    {
        r.item(std::is_same_v<T, Tag> ? "construct" : "construct(move-only)", K, N, 0, Cat);
        auto args = make_args<T, K>(r.ids);
        using F = ctpg::ftors::construct<Built<T>, N>;
        if constexpr (!std::is_invocable_v<F, decltype(pass<Cat, I + 1 == N>(args[I]))...>) { r.fail(Run::where("construct not invocable at a valid position", K, N, 0, Cat)); return; }
        else
        {
            cnt() = Counters{};
            int want = args[N - 1].id;
            auto res = F{}(pass<Cat, I + 1 == N>(args[I])...);
            static_assert(std::is_same_v<decltype(res), Built<T>>, "construct<T,I> builds T");
            if (res.t.id != want) r.fail(Run::where("construct built T from the wrong argument", K, N, 0, Cat));
            constexpr bool target_rvalue = Cat == 0 || Cat == 3;
            if (target_rvalue && cnt().copies) r.fail(Run::where("construct copied an rvalue argument", K, N, 0, Cat));
            if (!others_untouched(args, r.ids, N - 1)) r.fail(Run::where("construct touched another argument", K, N, 0, Cat));
        }
    }
}
// ---- construct<T,I> builds T{value}: for a type where T(v) and T{v} differ (std::vector<int> from an int) the documented form is the list
template<size_t K, size_t N, size_t... I>
void construct_list_one(Run& r, std::index_sequence<I...>)
{
    r.item("construct(list-init)", K, N, 0, 0);
    std::array<int, K> args{}; for (size_t i = 0; i < K; ++i) args[i] = 2 + int(i) + (r.ids[i % r.ids.size()] % 5);
    using F = ctpg::ftors::construct<std::vector<int>, N>;
    if constexpr (!std::is_invocable_v<F, decltype(std::move(args[I]))...>) { r.fail(Run::where("construct<std::vector<int>,I> not invocable at a valid position", K, N, 0, 0)); return; }
    else
    {
        auto res = F{}(std::move(args[I])...);
        if (res.size() != 1 || res[0] != args[N - 1]) r.fail(Run::where("construct<std::vector<int>,I> did not build T{I-th value} (a one-element list)", K, N, 0, 0));
    }
}

// ---- push_back<C,A> / emplace_back<C,A> -------------------------------------------------------------
// heterogeneous argument lists: position C holds a container, all others hold tags
template<class T, size_t K, size_t C, size_t A, int Cat, bool Emplace, size_t... I>
void back_one(Run& r, std::index_sequence<I...>)
{
    constexpr bool copyable = std::is_copy_constructible_v<T>;
    // the parser passes rvalues; lvalue containers are also legal for callers of the functor (category 1), const ones are not (they are modified)
    if constexpr ((!copyable && Cat != 0) || Cat == 2) return;
    else
    {
        const char* kind = Emplace ? (copyable ? "emplace_back" : "emplace_back(move-only)") : "push_back";
        r.item(kind, K, C, A, Cat);
        auto args = make_args<T, K>(r.ids);
        Cont<T> cont(4242); cont.v.reserve(8);
        if constexpr (copyable) cont.v.push_back(T(7));
        Cont<T>::copies() = 0;
        auto sel = [&](auto ic) -> decltype(auto)
        {
            constexpr size_t i = decltype(ic)::value;
            if constexpr (i + 1 == C) return pass<Cat == 3 ? 1 : Cat == 4 ? 0 : Cat, false>(cont);     // container follows the "others" category
            else return pass<Cat, i + 1 == A>(args[i]);
        };
        using F = std::conditional_t<Emplace, ctpg::ftors::emplace_back<C, A>, ctpg::ftors::push_back<C, A>>;
        if constexpr (!std::is_invocable_v<F, decltype(sel(std::integral_constant<size_t, I>{}))...>) { r.fail(Run::where((std::string(kind) + " not invocable for a valid (container, element) pair").c_str(), K, C, A, Cat)); return; }
        else
        {
            cnt() = Counters{};
            int want = args[A - 1].id; size_t before = cont.v.size();
            decltype(auto) res = F{}(sel(std::integral_constant<size_t, I>{})...);
            if constexpr (!std::is_reference_v<decltype(res)>) r.fail(Run::where((std::string(kind) + " returns the container by value (a copy)").c_str(), K, C, A, Cat));
            else if (static_cast<const void*>(&res) != static_cast<const void*>(&cont)) r.fail(Run::where((std::string(kind) + " does not return the C-th argument").c_str(), K, C, A, Cat));
            if (Cont<T>::copies() != 0) r.fail(Run::where((std::string(kind) + " copied the container").c_str(), K, C, A, Cat));
            if (cont.v.size() != before + 1 || cont.v.back().id != want) r.fail(Run::where((std::string(kind) + " did not append the A-th argument to the C-th").c_str(), K, C, A, Cat));
            if (Emplace && cnt().copies) r.fail(Run::where("emplace_back copied the element", K, C, A, Cat));
            if (Emplace && !(cont.eb_calls == 1 && cont.pb_calls == 0)) r.fail(Run::where("emplace_back did not call emplace_back on the container (it used push_back: only implicit conversions to the element type)", K, C, A, Cat));
            if (!Emplace && !(cont.pb_calls == 1 && cont.eb_calls == 0)) r.fail(Run::where("push_back did not call push_back on the container", K, C, A, Cat));
            if (!others_untouched(args, r.ids, A - 1, C - 1)) r.fail(Run::where((std::string(kind) + " touched another argument").c_str(), K, C, A, Cat));
            if (!Emplace && (args[A - 1].moved_from)) r.fail(Run::where("push_back moved from its (const&) element argument", K, C, A, Cat));
        }
    }
}
// ---- val / create -------------------------------------------------------------------------------------
// "a default value of the given type" is T{}: for types without a default constructor of their own (scalars, pointers, plain aggregates) that is the zero value.
// In a constant expression a default-initialised (indeterminate) result cannot be read, so a create<T> that does not value-initialise fails to compile here
// (build failure of this engine = violation, control e_values).
struct PlainAgg { int a; long b; unsigned char c[3]; double d; };
static_assert(ctpg::ftors::create<int>{}() == 0 && ctpg::ftors::create<int>{}(1, 2.5, "x") == 0, "create<int> must return int{}");
static_assert(ctpg::ftors::create<const char*>{}(7) == nullptr, "create<T*> must return nullptr");
static_assert(ctpg::ftors::create<PlainAgg>{}(1, 2).b == 0 && ctpg::ftors::create<PlainAgg>{}().c[2] == 0, "create<aggregate> must return a zeroed aggregate");
__attribute__((noinline)) inline void scribble_stack(unsigned char fill) { volatile unsigned char junk[4096]; for (size_t i = 0; i < sizeof(junk); ++i) junk[i] = fill; }
template<class T, class... A> __attribute__((noinline)) T call_create(A&&... a) { return ctpg::ftors::create<T>{}(std::forward<A>(a)...); }

template<size_t K, int Cat, size_t... I>
void val_create_one(Run& r, std::index_sequence<I...>)
{
    r.item("val", K, 0, 0, Cat); r.item("create", K, 0, 0, Cat);
    auto args = make_args<Tag, K>(r.ids);
    int v = r.ids[0] * 31 + 5;
    auto f = ctpg::ftors::val(int(v));
    auto res = f(pass<Cat, false>(args[I])...);
    if (res != v) r.fail(Run::where("val(v) did not return v", K, 0, 0, Cat));
    if (!others_untouched(args, r.ids, size_t(-1))) r.fail(Run::where("val touched an argument", K, 0, 0, Cat));
    struct D { int x = 17; std::string s = "d"; };
    auto d = ctpg::ftors::create<D>{}(pass<Cat, false>(args[I])...);
    if (d.x != 17 || d.s != "d") r.fail(Run::where("create<T> did not return a default T", K, 0, 0, Cat));
    {   // scalar / plain aggregate results over a scribbled stack (run time twin of the static_asserts above)
        scribble_stack(0xAB); long sc = call_create<long>(pass<Cat, false>(args[I])...);
        scribble_stack(0xCD); PlainAgg ag = call_create<PlainAgg>(pass<Cat, false>(args[I])...);
        scribble_stack(0xEF); void* pv = call_create<void*>(pass<Cat, false>(args[I])...);
        if (sc != 0 || ag.a != 0 || ag.b != 0 || ag.c[0] != 0 || ag.c[2] != 0 || ag.d != 0.0 || pv != nullptr) r.fail(Run::where("create<T> did not return T{} for a scalar / pointer / plain aggregate T", K, 0, 0, Cat));
    }
    if (!others_untouched(args, r.ids, size_t(-1))) r.fail(Run::where("create touched an argument", K, 0, 0, Cat));
    {   // val(v) holds the VALUE it was given (its type decayed), not a view of the caller's object
        std::string src = "a default name that is long enough for the heap " + std::to_string(v);
        const std::string want = src;
        std::string src2 = src;
        auto fs = ctpg::ftors::val(std::move(src2));          // val takes its value as an rvalue (val(7), val(std::move(s)), val(std::string(...)))
        auto fm = ctpg::ftors::val(std::string(src));
        src.assign(src.size(), '#'); src2.assign(8, '#');
        auto rs = fs(pass<Cat, false>(args[I])...); auto rm = fm(pass<Cat, false>(args[I])...);
        // the call yields a value of its own (a prvalue), not a reference into the functor object
        if constexpr (!std::is_same_v<decltype(fs(pass<Cat, false>(args[I])...)), std::string> || !std::is_same_v<decltype(ctpg::ftors::val(int(v))(pass<Cat, false>(args[I])...)), int>) r.fail(Run::where("val(v)(...) does not return a value of v's type (it returns a reference or another type)", K, 0, 0, Cat));
        if constexpr (!std::is_same_v<decltype(rs), std::string> || !std::is_same_v<decltype(rm), std::string>) r.fail(Run::where("val(std::string) does not return a std::string", K, 0, 0, Cat));
        else if (rs != want || rm != want) r.fail(Run::where("val(v) does not return the value it was given (it follows later changes of the caller's object)", K, 0, 0, Cat));
        auto fl = ctpg::ftors::val(static_cast<const char*>("lit"));
        if constexpr (!std::is_same_v<decltype(fl()), const char*>) r.fail(Run::where("val(const char*) does not return a const char*", K, 0, 0, Cat));
    }
    // zero arguments are legal as well (empty rules)
    if constexpr (K == 1) { if (ctpg::ftors::val(int(v))() != v) r.fail("val(v)() != v"); if (ctpg::ftors::create<D>{}().x != 17) r.fail("create<T>() is not a default T"); }
}

template<size_t K, size_t N, int Cat>
void per_position(Run& r)
{
    auto seq = std::make_index_sequence<K>{};
    element_one<K, N, Cat, Tag>(r, seq); element_one<K, N, Cat, MTag>(r, seq);
    construct_one<K, N, Cat, Tag>(r, seq); construct_one<K, N, Cat, MTag>(r, seq);
    if constexpr (Cat == 0) construct_list_one<K, N>(r, seq);
}
template<size_t K, size_t C, size_t A, int Cat>
void per_pair(Run& r)
{
    if constexpr (C != A)
    {
        auto seq = std::make_index_sequence<K>{};
        back_one<Tag, K, C, A, Cat, false>(r, seq);
        back_one<Tag, K, C, A, Cat, true>(r, seq);
        back_one<MTag, K, C, A, Cat, true>(r, seq);
    }
}
template<size_t K, int Cat, size_t... N>
void positions(Run& r, std::index_sequence<N...>) { (per_position<K, N + 1, Cat>(r), ...); }
template<size_t K, size_t C, int Cat, size_t... A>
void pairs_a(Run& r, std::index_sequence<A...>) { (per_pair<K, C, A + 1, Cat>(r), ...); }
template<size_t K, int Cat, size_t... C>
void pairs(Run& r, std::index_sequence<C...>) { (pairs_a<K, C + 1, Cat>(r, std::make_index_sequence<K>{}), ...); }

template<size_t K, int Cat>
void arity_cat(Run& r)
{
    positions<K, Cat>(r, std::make_index_sequence<K>{});
    pairs<K, Cat>(r, std::make_index_sequence<K>{});
    val_create_one<K, Cat>(r, std::make_index_sequence<K>{});
}
template<size_t K>
void arity(Run& r) { arity_cat<K, 0>(r); arity_cat<K, 1>(r); if constexpr (K <= 4) { arity_cat<K, 2>(r); arity_cat<K, 3>(r); arity_cat<K, 4>(r); } }
}

struct HCase { std::vector<int> ids; };

struct P_C19
{
    using Case = HCase;
    static const char* id() { return "C19"; }
    static Case gen(Choice& ch) { Case c; int n = 1 + int(ch.below(9)); for (int i = 0; i < n; ++i) c.ids.push_back(1 + int(ch.below(1000))); return c; }
    static vj::Value to_json(const Case& c) { vj::Value o = vj::Value::object(); vj::Value a = vj::Value::array(); for (int x : c.ids) a.push(x); o.set("kind", "helpers"); o.set("ids", a); return o; }
    static Case from_json(const vj::Value& v) { Case c; for (size_t i = 0; i < v.at("ids").size(); ++i) c.ids.push_back(int(v.at("ids").at(i).as_int())); if (c.ids.empty()) c.ids.push_back(1); return c; }
    static std::vector<Case> shrinks(const Case& c, const vj::Value&) { std::vector<Case> o; if (c.ids.size() > 1) { Case d = c; d.ids.resize(1); o.push_back(d); } return o; }
    static Verdict eval(const Case& c, Stats& st)
    {
        h::Run r{c.ids, st, {}, 0};
        h::arity<1>(r); h::arity<2>(r); h::arity<3>(r); h::arity<4>(r); h::arity<5>(r); h::arity<6>(r); h::arity<7>(r); h::arity<8>(r); h::arity<9>(r);
        if (st.counting) { st.sub_evaluations += r.checks; if (st.want_sample()) { vj::Value s = vj::Value::object(); s.set("ids", to_json(c).at("ids")); s.set("position_space_items_checked", (unsigned long long)r.checks); st.sample(s); } }
        if (r.f.failed) { vj::Value d = vj::Value::object(); d.set("where", r.f.what); return Verdict::fail(r.f.what, d); }
        return Verdict::pass();
    }
};

int main(int argc, char** argv)
{
    eng::Args a = eng::parse_args(argc, argv);
    if (a.prop == "C19") return eng::run_property<P_C19>(a);
    fprintf(stderr, "unknown --prop\n"); return 2;
}

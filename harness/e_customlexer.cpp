// Engine E7 (C18): a scripted custom lexer (use_lexer<Scripted>) drives injected grammars over custom terms.
#include "common/grammar_runner.hpp"

namespace cl
{
struct Entry { int term = -1; int len = 1; int mode = 0; };     // mode 0: fixed length (clipped to the remaining input) ; 1: run of the same byte, at most len ; 2: run of the same byte, unlimited
struct Script { std::array<Entry, 256> by_byte; };
struct LexCall { size_t remaining; uint32_t line, col; };
inline thread_local const Script* g_script = nullptr;
inline thread_local std::vector<LexCall>* g_calls = nullptr;

inline size_t script_len(const Script& s, const char* p, size_t rem)
{
    const Entry& e = s.by_byte[(unsigned char)*p];
    size_t len = size_t(e.len);
    if (e.mode == 1) { size_t k = 1; while (k < rem && k < len && p[k] == p[0]) ++k; return k; }
    if (e.mode == 2) { size_t k = 1; while (k < rem && p[k] == p[0]) ++k; return k; }
    return len > rem ? rem : len;
}

// length of [start, end): O(1) where the iterator type can be subtracted, by stepping otherwise
template<class It> auto remaining(It start, It end, int) -> decltype(size_t(end - start)) { return size_t(end - start); }
template<class It> size_t remaining(It start, It end, long) { size_t n = 0; for (; !(start == end); ++start) ++n; return n; }

struct Scripted
{
    // scratch of one request ("longest candidate so far"), valid because the parser answers every request with a lexer object of its own, default constructed
    // (C15's anchor: parse keeps all state in locals, the custom lexer instance included). A lexer object that lives longer - one per parse, or one per parser -
    // carries the previous request's candidate into the next one.
    size_t best_len = 0; int best_term = -1;
    template<typename Iterator, typename ErrorStream>
    constexpr ctpg::recognized_term match(ctpg::match_options, ctpg::source_point sp, Iterator start, Iterator end, ErrorStream&)
    {
        size_t rem = remaining(start, end, 0);
        if (g_calls) g_calls->push_back(LexCall{rem, sp.line, sp.column});
        if (rem == 0 || !g_script) return ctpg::recognized_term{};
        char first = *start;
        const Entry& e = g_script->by_byte[(unsigned char)first];
        if (e.term < 0) return ctpg::recognized_term{};
        size_t len = size_t(e.len);
        if (e.mode == 1) { size_t k = 1; Iterator it = start; ++it; while (k < rem && k < len && *it == first) { ++k; ++it; } len = k; }
        else if (e.mode == 2) { size_t k = 1; Iterator it = start; ++it; while (k < rem && *it == first) { ++k; ++it; } len = k; }
        else if (len > rem) len = rem;
        if (best_term < 0 || len > best_len) { best_term = e.term; best_len = len; }
        return ctpg::recognized_term(ctpg::size16_t(best_term), best_len);
    }
};
}

using TT36L = tpl::T36<tpl::small_limits, ctpg::use_lexer<cl::Scripted>>;

struct CLCase { GCase g; std::vector<std::array<int, 4>> script; std::vector<std::string> labels; };   // entries: byte, term, len, mode

static cl::Script script_of(const CLCase& c)
{
    cl::Script s;
    for (auto& e : c.script) { cl::Entry x; x.term = e[1]; x.len = e[2] < 1 ? 1 : e[2]; x.mode = e[3]; s.by_byte[size_t(e[0] & 255)] = x; }
    return s;
}

struct CTok { ref::Token t; size_t off, len; };
struct CLex { std::vector<CTok> toks; bool error = false; size_t err_off = 0; int err_line = 0, err_col = 0; unsigned char err_byte = 0; int eof_line = 1, eof_col = 1; };
static CLex ref_lex_custom(const cl::Script& s, const std::string& text, bool ws, bool nl)
{
    CLex L; size_t p = 0; int line = 1, col = 1;
    auto adv = [&](size_t to) { for (; p < to; ++p) { if (text[p] == '\n') { ++line; col = 1; } else ++col; } };
    while (true)
    {
        if (ws) { size_t q = p; while (q < text.size()) { unsigned char c = (unsigned char)text[q]; if (c == 9 || c == 11 || c == 12 || c == 13 || c == 32 || (c == 10 && nl)) ++q; else break; } adv(q); }
        if (p >= text.size()) break;
        const cl::Entry& e = s.by_byte[(unsigned char)text[p]];
        if (e.term < 0) { L.error = true; L.err_off = p; L.err_line = line; L.err_col = col; L.err_byte = (unsigned char)text[p]; break; }
        size_t len = cl::script_len(s, text.data() + p, text.size() - p);
        CTok t; t.t.term = e.term; t.t.lexeme = text.substr(p, len); t.t.line = line; t.t.col = col; t.off = p; t.len = len;
        L.toks.push_back(t);
        adv(p + len);
    }
    L.eof_line = line; L.eof_col = col;
    return L;
}

struct P_C18
{
    using Case = CLCase;
    static const char* id() { return eng::args().prop == "C15x" ? "C15x" : "C18"; }
    static Case gen(Choice& ch)
    {
        Case c;
        c.g.tmpl = 0;
        c.g.g = gg::gen_grammar(ch, ch.chance(1, 3) ? gg::RECOVERY : ch.chance(1, 3) ? gg::PRECEDENCE : gg::CONFLICT_FREE, c.g.strategy, tpl::t36_slots());
        // script: each grammar terminal gets 1-2 trigger bytes with a length rule; a few extra bytes map to terms as well; some bytes stay unmapped
        static const char pool[] = "abcdefghxyz0123456789+-*/<>=!\n \t";
        std::set<int> used;
        auto add = [&](int term)
        {
            int b = pool[ch.below(sizeof pool - 1)];
            if (used.count(b)) return;
            used.insert(b);
            int len = 1 + int(ch.weighted({6, 3, 2, 1}));
            c.script.push_back({b, term, len, int(ch.weighted({4, 4, 1}))});
        };
        for (int t = 0; t < 6; ++t) { add(t); if (ch.chance(1, 2)) add(t); }
        eng::Rng rng = ch.fork();
        // inputs: sentences of the grammar rendered through the script, mutants, whitespace, unmapped bytes
        ref::Analysis an = ref::analyse(c.g.g);
        std::vector<std::vector<int>> of_term(6);
        for (auto& e : c.script) of_term[size_t(e[1])].push_back(e[0]);
        auto render = [&](const std::vector<int>& toks)
        {
            static const char* wss[] = {" ", "\t", "\n", "\r\n", "  ", " \n"};
            std::string s;
            for (int t : toks)
            {
                if (of_term[size_t(t)].empty()) { s += '?'; continue; }
                int b = of_term[size_t(t)][rng.below(uint32_t(of_term[size_t(t)].size()))];
                int reps = 1 + int(rng.below(4));
                for (int i = 0; i < reps; ++i) s += char(b);
                if (rng.chance(1, 3)) s += char("abcx019+"[rng.below(8)]);       // bytes swallowed by a fixed length, or the start of another term
                if (rng.chance(1, 2)) s += wss[rng.below(6)];
            }
            return s;
        };
        int n = 6 + int(ch.below(10));
        for (int i = 0; i < n; ++i)
        {
            std::vector<int> s;
            if (an.productive[size_t(c.g.g.root)] && rng.chance(3, 4)) ref::derive(c.g.g, an, c.g.g.root, 2 + int(rng.below(5)), rng, s, 30);
            else { int k = int(rng.below(8)); for (int j = 0; j < k; ++j) s.push_back(int(rng.below(6))); }
            if (s.size() > 60) s.resize(60);
            if (rng.chance(1, 3) && !s.empty()) s[rng.below(uint32_t(s.size()))] = int(rng.below(6));
            gg::Input in; in.text = render(s);
            if (rng.chance(1, 8)) in.text.insert(in.text.begin() + rng.below(uint32_t(in.text.size() + 1)), '~');
            if (rng.chance(1, 5)) in.skip_nl = false;
            if (rng.chance(1, 8)) in.skip_ws = false;
            c.g.inputs.push_back(in);
        }
        // occasionally one very long term (length >= 65536: lengths are size_t, not 16 bit) where the script has an unlimited run
        if (ch.chance(1, 12))
            for (auto& e : c.script)
                if (e[3] == 2 && e[0] > 32)
                {
                    // lengths around the 16-bit boundary (65534, 65535 = the library's "no match" marker for term_idx, 65536, 65537) and beyond
                    const size_t giant_len = rng.chance(1, 2) ? 65534 + rng.below(4) : 65536 + rng.below(5000);
                    gg::Input in; std::vector<int> s; if (an.productive[size_t(c.g.g.root)]) ref::derive(c.g.g, an, c.g.g.root, 3, rng, s, 12);
                    std::string pre, post; bool placed = false;
                    for (int t : s) { if (!placed && t == e[1]) { in.text += std::string(giant_len, char(e[0])); in.text += ' '; placed = true; continue; } if (of_term[size_t(t)].empty()) { in.text += '?'; continue; } in.text += char(of_term[size_t(t)][0]); in.text += ' '; }
                    if (!placed) in.text = std::string(giant_len, char(e[0])) + " " + in.text;
                    c.g.inputs.push_back(in); c.labels.push_back("giant-term");
                    break;
                }
        return c;
    }
    static vj::Value to_json(const Case& c)
    {
        vj::Value v = gcase_to_json(c.g); v.set("template", "T36L(use_lexer)");
        vj::Value sc = vj::Value::array();
        for (auto& e : c.script) { vj::Value x = vj::Value::object(); x.set("byte", e[0]); x.set("term", e[1]); x.set("len", e[2]); x.set("mode", e[3] == 2 ? "run-unlimited" : e[3] ? "run" : "fixed"); sc.push(x); }
        v.set("script", sc);
        return v;
    }
    static Case from_json(const vj::Value& v)
    {
        Case c; c.g = gcase_from_json(v); c.g.tmpl = 0;
        for (size_t i = 0; i < v.at("script").size(); ++i) { const auto& x = v.at("script").at(i); c.script.push_back({int(x.at("byte").as_int()), int(x.at("term").as_int()), int(x.at("len").as_int()), x.at("mode").as_str() == "run-unlimited" ? 2 : x.at("mode").as_str() == "run" ? 1 : 0}); }
        return c;
    }
    static std::vector<Case> shrinks(const Case& c, const vj::Value& d)
    {
        std::vector<Case> out;
        for (auto& g : gcase_shrinks(c.g, d)) { Case x = c; x.g = g; out.push_back(x); }
        for (size_t i = 0; i < c.script.size(); ++i) { Case x = c; x.script.erase(x.script.begin() + long(i)); out.push_back(x); }
        for (size_t i = 0; i < c.script.size(); ++i) if (c.script[i][2] > 1) { Case x = c; x.script[i][2] = 1; out.push_back(x); }
        return out;
    }
    static Verdict eval(const Case& c, Stats& st)
    {
        using R = Runner<TT36L>;
        const Grammar& g = c.g.g;
        if (g.rules.empty()) return Verdict::discard("empty-grammar");
        Prepared pr;
        if (!R::prepare(g, pr)) return Verdict::discard(pr.why);
        if (pr.table.has_rr) return Verdict::discard("not-LR1(rr)");     // shift/reduce conflicts are resolved by the custom terms' precedence and associativity, as for any other term kind
        try { R::inject(g); }
        catch (const std::exception& e) { vj::Value d = vj::Value::object(); d.set("exception", e.what()); return Verdict::fail(std::string("table construction threw: ") + e.what(), d); }
        cl::Script script = script_of(c);
        cl::g_script = &script;
        size_t interesting = 0; std::vector<std::string> case_labels;
        for (size_t k = 0; k < c.g.inputs.size(); ++k)
        {
            const gg::Input& in = c.g.inputs[k];
            CLex L = ref_lex_custom(script, in.text, in.skip_ws, in.skip_nl);
            std::vector<ref::Token> toks; for (auto& t : L.toks) toks.push_back(t.t);
            ref::RunResult rr = ref::run_lr(pr.table, toks, false, L.error);
            if (rr.looped || rr.hit_rr) continue;
            if (rr.hit_sr) case_labels.push_back("conflict-resolved-by-custom-term-precedence");
            std::vector<cl::LexCall> calls; cl::g_calls = &calls;
            Obs o = R::observe(in, false, 1, 0);
            cl::g_calls = nullptr;
            st.sub_evaluations += st.counting ? 1 : 0;
            auto fail = [&](const std::string& what, vj::Value d = vj::Value::object()) { d.set("input_index", (unsigned long long)k); d.set("input", in.text); d.set("input_hex", vj::hex(in.text)); d.set("ws", in.skip_ws); d.set("nl", in.skip_nl); d.set("error_stream", o.err); cl::g_script = nullptr; return Verdict::fail(what, d); };
            if (o.threw) { vj::Value d = vj::Value::object(); d.set("exception", o.exc); return fail("parse threw", d); }
            // 1. lexer calls: once per needed term, at the token start after whitespace skipping, with the true source point
            std::vector<cl::LexCall> want;
            for (int i = 0; i <= rr.max_examined && size_t(i) < L.toks.size(); ++i) want.push_back(cl::LexCall{in.text.size() - L.toks[size_t(i)].off, uint32_t(L.toks[size_t(i)].t.line), uint32_t(L.toks[size_t(i)].t.col)});
            if (rr.lex_error_reached) want.push_back(cl::LexCall{in.text.size() - L.err_off, uint32_t(L.err_line), uint32_t(L.err_col)});
            bool same = want.size() == calls.size();
            for (size_t i = 0; same && i < want.size(); ++i) if (want[i].remaining != calls[i].remaining || want[i].line != calls[i].line || want[i].col != calls[i].col) same = false;
            if (!same)
            {
                vj::Value d = vj::Value::object();
                vj::Value a = vj::Value::array(); for (auto& x : want) { vj::Value y = vj::Value::array(); y.push((unsigned long long)(in.text.size() - x.remaining)); y.push(x.line); y.push(x.col); a.push(y); } d.set("expected_calls(offset,line,col)", a);
                vj::Value b = vj::Value::array(); for (auto& x : calls) { vj::Value y = vj::Value::array(); y.push((long long)(in.text.size() - x.remaining)); y.push(x.line); y.push(x.col); b.push(y); } d.set("observed_calls(offset,line,col)", b);
                return fail("the custom lexer was not asked once per needed term at the position after whitespace skipping (or with a wrong source point)", d);
            }
            // 2. index selects the term's functor, exactly `len` bytes are consumed and passed as the slice
            if (o.log.terms.size() != rr.shifted_tokens.size()) return fail("number of term functor calls differs from the terms consumed");
            for (size_t i = 0; i < o.log.terms.size(); ++i)
            {
                const CTok& t = L.toks[size_t(rr.shifted_tokens[i])];
                const auto& tc = o.log.terms[i];
                if (tc.term != t.t.term || size_t(reinterpret_cast<uintptr_t>(tc.data)) != t.off || tc.size != t.len)
                { vj::Value d = vj::Value::object(); d.set("token", (unsigned long long)i); d.set("expected_term", t.t.term); d.set("observed_term", tc.term); d.set("expected_len", (unsigned long long)t.len); d.set("observed_len", (unsigned long long)tc.size); return fail("returned (index, length) not honoured: wrong functor or wrong slice", d); }
            }
            // 3. acceptance / value / messages as for the generated lexer
            if (o.has != rr.accepted) { vj::Value d = vj::Value::object(); d.set("expected_success", rr.accepted); return fail("outcome differs from the reference over the delivered terms", d); }
            if (o.has && o.value != rr.value) return fail("value differs from the reference over the delivered terms");
            std::vector<Msg> wantm, got;
            for (int ti : rr.error_tokens)
            {
                if (size_t(ti) < L.toks.size()) wantm.push_back(Msg{0, L.toks[size_t(ti)].t.line, L.toks[size_t(ti)].t.col, g.tname(L.toks[size_t(ti)].t.term)});
                else wantm.push_back(Msg{0, L.eof_line, L.eof_col, "<eof>"});
            }
            if (rr.lex_error_reached) wantm.push_back(Msg{1, L.err_line, L.err_col, std::string(1, char(L.err_byte))});
            if (!parse_msgs(o.err, got) || !same_msgs(got, wantm)) { vj::Value d = vj::Value::object(); d.set("expected_messages", msgs_json(wantm)); return fail("messages differ (a default-constructed result must give 'Unexpected character'; syntax errors as for the generated lexer)", d); }
            std::set<size_t> lens; for (int i : rr.shifted_tokens) lens.insert(L.toks[size_t(i)].len);
            bool mid_fail = !rr.accepted && rr.max_examined >= 1;
            if ((rr.shifted_tokens.size() >= 3 && lens.size() >= 2) || mid_fail) { ++interesting; if (mid_fail) case_labels.push_back(rr.lex_error_reached ? "lexer-says-no-match" : "syntax-error-mid-input"); if (rr.recovered) case_labels.push_back("recovery"); if (lens.size() >= 2) case_labels.push_back("several-lengths"); }
        }
        cl::g_script = nullptr;
        if (interesting && st.counting && st.nontriv(eng::hcomb(g.hash(), c.g.inputs.size() * 131 + c.script.size())))
        {
            labels_for(g, pr, st, c.g); st.label("nontrivial"); for (auto& l : c.labels) st.label(l);
            std::sort(case_labels.begin(), case_labels.end()); case_labels.erase(std::unique(case_labels.begin(), case_labels.end()), case_labels.end());
            for (auto& l : case_labels) st.label(l);
            if (st.want_sample()) { vj::Value s = vj::Value::object(); s.set("grammar", g.show()); s.set("script", to_json(c).at("script")); s.set("example_input", c.g.inputs.empty() ? std::string() : c.g.inputs.back().text); st.sample(s); }
        }
        return Verdict::pass();
    }
};

// ---------------------------------------------------------------------------------------------------
// C18t: a hand-written settings parser with a custom lexer whose custom terms have functors that return something other than the
// slice itself (a string_view without the quotes, an int, the slice unchanged, no_type): "passes that slice through the custom term's functor".
namespace st
{
using namespace ctpg; using namespace ctpg::ftors;
struct lexer
{
    template<typename Iterator, typename ErrorStream>
    constexpr recognized_term match(match_options, source_point, Iterator start, Iterator end, ErrorStream&)
    {
        if (start == end) return recognized_term{};
        char c = *start; size_t n = 1; Iterator it = start; ++it;
        auto is_id = [](char x) { return (x >= 'a' && x <= 'z') || x == '_'; };
        if (c == '"') { while (!(it == end) && *it != '"') { ++it; ++n; } if (it == end) return recognized_term{}; return recognized_term(0, n + 1); }
        if (c >= '0' && c <= '9') { while (!(it == end) && *it >= '0' && *it <= '9') { ++it; ++n; } return recognized_term(1, n); }
        if (is_id(c)) { while (!(it == end) && is_id(*it)) { ++it; ++n; } return recognized_term(2, n); }
        if (c == '=') return recognized_term(3, 1);
        if (c == ';') return recognized_term(4, 1);
        return recognized_term{};
    }
};
constexpr custom_term t_str("str", [](std::string_view sv) { return sv.substr(1, sv.size() - 2); });     // a string_view that is NOT the slice
constexpr custom_term t_num("num", [](std::string_view sv) { int v = 0; for (char ch : sv) v = (v * 10 + (ch - '0')) % 1000003; return v; });
constexpr custom_term t_id("id", [](std::string_view sv) { return sv; });
constexpr custom_term t_eq("=", create<no_type>{});
constexpr custom_term t_semi(";", create<no_type>{});
constexpr nterm<std::string> list("list"), item("item");
inline const auto& settings_parser()
{
    static const auto* p = new parser(
        list, terms(t_str, t_num, t_id, t_eq, t_semi), nterms(list, item),
        rules(
            list() >= [] { return std::string(); },
            list(list, item, t_semi) >= [](std::string a, std::string b, skip) { return a + b + ";"; },
            item(t_id, t_eq, t_str) >= [](std::string_view k, skip, std::string_view v) { return std::string(k) + "=<" + std::string(v) + ">"; },
            item(t_id, t_eq, t_num) >= [](std::string_view k, skip, int v) { return std::string(k) + "=#" + std::to_string(v); }
        ),
        use_lexer<lexer>{});
    return *p;
}
// independent evaluator of the same little language
inline bool eval(const std::string& t, std::string& out)
{
    size_t p = 0;
    auto ws = [&] { while (p < t.size() && (t[p] == ' ' || t[p] == '\t' || t[p] == '\n' || t[p] == '\r' || t[p] == '\v' || t[p] == '\f')) ++p; };
    auto is_id = [](char x) { return (x >= 'a' && x <= 'z') || x == '_'; };
    while (true)
    {
        ws(); if (p >= t.size()) return true;
        if (!is_id(t[p])) return false;
        size_t q = p; while (q < t.size() && is_id(t[q])) ++q; std::string k = t.substr(p, q - p); p = q;
        ws(); if (p >= t.size() || t[p] != '=') return false; ++p; ws();
        if (p >= t.size()) return false;
        if (t[p] == '"') { size_t e = t.find('"', p + 1); if (e == std::string::npos) return false; out += k + "=<" + t.substr(p + 1, e - p - 1) + ">"; p = e + 1; }
        else if (t[p] >= '0' && t[p] <= '9') { long v = 0; while (p < t.size() && t[p] >= '0' && t[p] <= '9') { v = (v * 10 + (t[p] - '0')) % 1000003; ++p; } out += k + "=#" + std::to_string(v); }
        else return false;
        ws(); if (p >= t.size() || t[p] != ';') return false; ++p; out += ";";
    }
}
}

struct P_C18t
{
    struct Case { std::vector<std::string> inputs; };
    static const char* id() { return "C18t"; }
    static Case gen(Choice& ch)
    {
        Case c; eng::Rng rng = ch.fork(); int n = 3 + int(ch.below(8));
        static const char* ids[] = {"a", "name", "x_y", "path", "k"}; static const char* strs[] = {"\"Ann Lee\"", "\"\"", "\"a=b;c\"", "\"  two  spaces \"", "\"9\"", "\"multi\nline\""}; static const char* wsx[] = {"", " ", "  ", "\n", "\t", " \n "};
        for (int i = 0; i < n; ++i)
        {
            std::string s; int items = int(rng.below(5));
            for (int k = 0; k < items; ++k)
            {
                s += wsx[rng.below(6)]; s += ids[rng.below(5)]; s += wsx[rng.below(6)]; s += "="; s += wsx[rng.below(6)];
                if (rng.chance(1, 2)) s += strs[rng.below(6)]; else s += std::to_string(rng.below(100000));
                s += wsx[rng.below(6)]; s += ";";
            }
            s += wsx[rng.below(6)];
            if (rng.chance(1, 5) && !s.empty()) { size_t pos = rng.below(uint32_t(s.size())); switch (rng.below(4)) { case 0: s.erase(pos, 1); break; case 1: s.insert(pos, 1, "=;\"9a?"[rng.below(7)]); break; case 2: s[pos] = "=;\"9a?"[rng.below(7)]; break; default: s.resize(pos); break; } }
            c.inputs.push_back(s);
        }
        return c;
    }
    static vj::Value to_json(const Case& c) { vj::Value o = vj::Value::object(); o.set("kind", "settings-parser(custom lexer)"); vj::Value a = vj::Value::array(); for (auto& s : c.inputs) { vj::Value x = vj::Value::object(); x.set("hex", vj::hex(s)); x.set("text", s); a.push(x); } o.set("inputs", a); return o; }
    static Case from_json(const vj::Value& v) { Case c; for (size_t i = 0; i < v.at("inputs").size(); ++i) c.inputs.push_back(vj::unhex(v.at("inputs").at(i).at("hex").as_str())); return c; }
    static std::vector<Case> shrinks(const Case& c, const vj::Value& d)
    {
        std::vector<Case> out;
        if (d.has("input_index") && c.inputs.size() > 1) { size_t k = size_t(d.at("input_index").as_int()); if (k < c.inputs.size()) { Case x; x.inputs = {c.inputs[k]}; out.push_back(x); } }
        if (c.inputs.size() == 1) for (size_t p = 0; p < c.inputs[0].size(); ++p) { Case x = c; x.inputs[0].erase(p, 1); out.push_back(x); }
        return out;
    }
    static Verdict eval(const Case& c, Stats& st)
    {
        size_t interesting = 0;
        for (size_t k = 0; k < c.inputs.size(); ++k)
        {
            std::string want; bool ok = st::eval(c.inputs[k], want);
            std::optional<std::string> got; ctpg::utils::no_stream ns; bool threw = false; std::string exc;
            try { got = st::settings_parser().parse(ctpg::parse_options{}, ctpg::buffers::string_buffer(std::string(c.inputs[k])), ns); } catch (const std::exception& e) { threw = true; exc = e.what(); }
            st.sub_evaluations += st.counting ? 1 : 0;
            vj::Value d = vj::Value::object(); d.set("input_index", (unsigned long long)k); d.set("input", c.inputs[k]);
            if (threw) { d.set("exception", exc); return Verdict::fail("parse threw", d); }
            if (got.has_value() != ok) { d.set("expected_accept", ok); return Verdict::fail("acceptance differs from the language of the custom-lexer grammar", d); }
            if (ok && got.value() != want) { d.set("expected", want); d.set("observed", got.value()); return Verdict::fail("a custom term's value is not its functor applied to the slice the lexer returned", d); }
            if (ok && want.find('<') != std::string::npos) ++interesting;
        }
        if (interesting && st.counting && st.nontriv(eng::hstr(to_json(c).dump()))) { st.label("nontrivial"); st.label("fixed-parser:settings(custom lexer, string_view/int/no_type term values)"); if (st.want_sample()) st.sample(to_json(c)); }
        return Verdict::pass();
    }
};

int main(int argc, char** argv)
{
    eng::Args a = eng::parse_args(argc, argv);
    int rc = 2;
    eng::on_big_stack([&]
    {
        if (a.prop == "C18" || a.prop == "C15x") rc = eng::run_property<P_C18>(a);
        else if (a.prop == "C18t") rc = eng::run_property<P_C18t>(a);
        else { fprintf(stderr, "unknown --prop %s\n", a.prop.c_str()); rc = 2; }
    });
    return rc;
}

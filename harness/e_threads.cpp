// Engine E6 (C15): one parser object, many calls. Sequential histories check result == isolated result and an unchanged byte image after
// every call; concurrent histories run the same calls from 2..8 threads released by a barrier with generated yield patterns and compare
// every result with the isolated one. The same source is also built with -fsanitize=thread, whose report is the race oracle.
#include "common/grammar_runner.hpp"
#include <atomic>
#include <thread>
#include <chrono>

struct Op { int input = 0; int kind = 0; bool verbose = false; int stream = 1; int buffer = 0; int yields = 0;          // kind 0 parse, 1 context_parse, 2 write_diag_str
            int fail_at = -1;                              // >= 0: the k-th rule functor call of this operation throws (the parse ends with that exception)
            int nested_at = -1; int nested_input = 0; bool nested_verbose = false; };   // >= 0: the k-th rule functor call starts parse() on the same parser (re-entrant use)
struct TCase { GCase g; std::vector<std::vector<Op>> threads; bool share_stream = false; };

struct OpResult { bool threw = false; bool has = false; uint64_t value = 0; std::string err; std::vector<int> slots; std::vector<int> ctx_seen; std::string diag;
                  bool nested_ran = false, nested_has = false, nested_threw = false; uint64_t nested_value = 0; std::string nested_err; };
static bool same(const OpResult& a, const OpResult& b)
{
    return a.threw == b.threw && a.has == b.has && a.value == b.value && a.err == b.err && a.slots == b.slots && a.ctx_seen == b.ctx_seen && a.diag == b.diag &&
           a.nested_ran == b.nested_ran && a.nested_has == b.nested_has && a.nested_threw == b.nested_threw && a.nested_value == b.nested_value && a.nested_err == b.nested_err;
}

template<class TT>
static OpResult run_op(const GCase& c, const Op& op)
{
    using R = Runner<TT>;
    OpResult r;
    if (op.kind == 2) { r.diag = R::diag(); return r; }
    const gg::Input& in = c.inputs[size_t(op.input)];
    // hooks: a functor call that throws / that starts another parse on the same parser object
    tpl::g_functor_calls = 0; tpl::g_fail_at = op.fail_at; tpl::g_nested_at = -1; tpl::g_nested_hook = nullptr;
    std::function<void()> nested = [&]()
    {
        Obs n = R::observe(c.inputs[size_t(op.nested_input)], op.nested_verbose, 2, 0);      // its own stream object
        r.nested_ran = true; r.nested_has = n.has; r.nested_threw = n.threw; r.nested_value = n.value; r.nested_err = n.err;
    };
    if (op.nested_at >= 0 && size_t(op.nested_input) < c.inputs.size()) { tpl::g_nested_at = op.nested_at; tpl::g_nested_hook = &nested; }
    struct Unhook { ~Unhook() { tpl::g_fail_at = -1; tpl::g_nested_at = -1; tpl::g_nested_hook = nullptr; } } unhook;
    if (op.kind == 0)
    {
        Obs o = R::observe(in, op.verbose, op.stream, op.buffer);
        r.threw = o.threw; r.has = o.has; r.value = o.value; r.err = o.err; for (auto& x : o.log.rules) r.slots.push_back(x.slot);
        return r;
    }
    tpl::Ctx ctx; tpl::CallLog log; tpl::g_log = &log;
    try
    {
        std::ostringstream own; std::ostringstream& os = R::shared_stream() ? *R::shared_stream() : own; os.str(std::string());
        std::string text = in.text;
        auto opts = ctpg::parse_options{}.set_skip_whitespace(in.skip_ws).set_skip_newline(in.skip_nl).set_verbose(op.verbose);
        auto res = R::parser().context_parse(ctx, opts, ctpg::buffers::string_view_buffer{std::string_view(text)}, os);
        r.has = res.has_value(); if (r.has) r.value = res.value().get_value().h; r.err = os.str();
    }
    catch (const std::exception&) { r.threw = true; }
    tpl::g_log = nullptr;
    for (auto& x : log.rules) r.slots.push_back(x.slot);
    r.ctx_seen = ctx.seen;
    return r;
}

template<class TT>
static Verdict check_c15(const TCase& tc, Stats& st)
{
    using R = Runner<TT>;
    using PS = typename TT::parser_type;
    const GCase& c = tc.g; const Grammar& g = c.g;
    if (g.rules.empty() || c.inputs.empty()) return Verdict::discard("empty");
    Prepared pr;
    if (!R::prepare(g, pr)) return Verdict::discard(pr.why);
    if (pr.table.has_rr) return Verdict::discard("has-rr");
    // skip inputs on which an ambiguous cyclic grammar loops
    for (auto& in : c.inputs) { Expect e = expect_for(pr, in); if (e.rr.looped || e.rr.hit_rr) return Verdict::discard("looping-or-rr-input"); }
    try { R::inject(g); } catch (const std::exception&) { return Verdict::discard("construction-threw"); }
    PS& p = R::parser();
    // inputs on which the grammar loops were discarded above: from here on every call returns quickly, and a call that does not return is the finding
    eng::stall_reason() = "a call on the parser never returned (after an earlier call ended with an exception, from inside a functor, or concurrently)";
    eng::watchdog_arm(60);
    tpl::g_nonconst_calls = 0;      // per case: a counter that survives a case would make every later case (and every shrink candidate) "fail"
    std::vector<unsigned char> image(sizeof(PS)); std::memcpy(image.data(), &p, sizeof(PS));
    auto image_same = [&]() { return std::memcmp(image.data(), &p, sizeof(PS)) == 0; };
    // isolated results (each on the freshly injected, otherwise untouched object, one at a time)
    std::vector<std::vector<OpResult>> expect(tc.threads.size());
    // "in isolation" includes per-thread state: every expected result is computed on a brand-new thread (fresh thread_local storage), so that
    // something a call leaves behind in thread-local or static storage shows up as a difference when the history runs the calls on one thread
    for (size_t t = 0; t < tc.threads.size(); ++t) for (auto& op : tc.threads[t]) { OpResult r; eng::on_big_stack([&] { r = run_op<TT>(c, op); }, size_t(64) << 20); expect[t].push_back(r); }
    // a call that is interrupted by ANOTHER call on the same parser (started from inside one of its functors, reporting to a stream of its own) gives the result
    // it gives without the interruption: re-entrancy on one thread is an interleaving too
    for (size_t t = 0; t < tc.threads.size(); ++t) for (size_t i = 0; i < tc.threads[t].size(); ++i)
    {
        const Op& op = tc.threads[t][i];
        if (op.nested_at < 0 || op.fail_at >= 0 || op.kind == 2 || !expect[t][i].nested_ran) continue;
        Op plain_op = op; plain_op.nested_at = -1;
        OpResult plain; eng::on_big_stack([&] { plain = run_op<TT>(c, plain_op); }, size_t(64) << 20);
        const OpResult& e = expect[t][i];
        if (plain.threw != e.threw || plain.has != e.has || plain.value != e.value || plain.err != e.err || plain.ctx_seen != e.ctx_seen)
        {
            vj::Value d = vj::Value::object(); d.set("thread", (unsigned long long)t); d.set("op", (unsigned long long)i); d.set("stream_without_nested_call", plain.err.substr(0, 2000)); d.set("stream_with_nested_call", e.err.substr(0, 2000));
            return Verdict::fail("a call interrupted by another call on the same parser (from inside a functor, own stream) gave a different result or stream text than without the interruption", d);
        }
    }
    if (!image_same()) return Verdict::fail("the parser object changed during const calls (isolated phase)");
    if (tpl::g_nonconst_calls.load() != 0) return Verdict::fail("a functor stored in the parser was invoked as a non-const object: a const parse can write into the parser object");
    auto desc = [&](size_t t, size_t i) { vj::Value d = vj::Value::object(); d.set("thread", (unsigned long long)t); d.set("op", (unsigned long long)i); const Op& op = tc.threads[t][i]; d.set("kind", op.kind == 0 ? "parse" : op.kind == 1 ? "context_parse" : "write_diag_str"); if (op.kind != 2) d.set("input", c.inputs[size_t(op.input)].text); d.set("verbose", op.verbose); return d; };
    bool had_fail_before_success = false;
    if (tc.threads.size() == 1)
    {
        bool seen_fail = false;
        // the whole history reports to ONE stream object, as a program that passes std::cerr to every call does; only its text is cleared between calls
        std::ostringstream shared; struct Guard { std::ostringstream*& slot; ~Guard() { slot = nullptr; } } guard{R::shared_stream()};
        if (tc.share_stream) R::shared_stream() = &shared;
        for (size_t i = 0; i < tc.threads[0].size(); ++i)
        {
            OpResult r = run_op<TT>(c, tc.threads[0][i]);
            if (!same(r, expect[0][i])) return Verdict::fail(tc.share_stream ? "a call gave a different result than in isolation (sequential history reporting to one reused stream object)" : "a call gave a different result than in isolation (sequential history)", desc(0, i));
            if (!image_same()) return Verdict::fail("a const call modified the parser object", desc(0, i));
            if (tc.threads[0][i].kind != 2) { if (!r.has) seen_fail = true; else if (seen_fail) had_fail_before_success = true; }
        }
        st.sub_evaluations += st.counting ? tc.threads[0].size() : 0;
        if (had_fail_before_success && st.counting && st.nontriv(eng::hcomb(g.hash(), tc.threads[0].size())))
        { st.label("nontrivial"); st.label("sequential-history"); if (tc.share_stream) st.label("one-reused-stream-object"); if (st.want_sample()) { vj::Value s = vj::Value::object(); s.set("grammar", g.show()); s.set("ops", (unsigned long long)tc.threads[0].size()); s.set("threads", 1); st.sample(s); } }
        return Verdict::pass();
    }
    // concurrent
    size_t T = tc.threads.size();
    std::vector<std::vector<OpResult>> got(T);
    std::vector<std::vector<std::pair<long long, long long>>> times(T);
    std::atomic<size_t> ready{0}; std::atomic<bool> go{false};
    std::vector<std::thread> ths;
    for (size_t t = 0; t < T; ++t)
        ths.emplace_back([&, t]
        {
            ready.fetch_add(1);
            while (!go.load(std::memory_order_acquire)) {}
            for (auto& op : tc.threads[t])
            {
                for (int y = 0; y < op.yields; ++y) std::this_thread::yield();
                auto a = std::chrono::steady_clock::now();
                got[t].push_back(run_op<TT>(c, op));
                auto b = std::chrono::steady_clock::now();
                times[t].push_back({std::chrono::duration_cast<std::chrono::nanoseconds>(a.time_since_epoch()).count(), std::chrono::duration_cast<std::chrono::nanoseconds>(b.time_since_epoch()).count()});
            }
        });
    while (ready.load() < T) std::this_thread::yield();
    go.store(true, std::memory_order_release);
    for (auto& th : ths) th.join();
    size_t nops = 0;
    for (size_t t = 0; t < T; ++t) for (size_t i = 0; i < tc.threads[t].size(); ++i) { ++nops; if (!same(got[t][i], expect[t][i])) return Verdict::fail("a concurrent call gave a different result than in isolation", desc(t, i)); }
    if (!image_same()) return Verdict::fail("concurrent const calls modified the parser object");
    st.sub_evaluations += st.counting ? nops : 0;
    size_t overlaps = 0;
    for (size_t t = 0; t < T; ++t) for (size_t u = t + 1; u < T; ++u) for (auto& x : times[t]) for (auto& y : times[u]) if (x.first < y.second && y.first < x.second) ++overlaps;
    if (overlaps && st.counting && st.nontriv(eng::hcomb(eng::hcomb(g.hash(), T), nops)))
    { st.label("nontrivial"); st.label("concurrent-overlap"); st.count("overlapping-call-pairs", overlaps); st.label("threads:" + std::to_string(T)); if (st.want_sample()) { vj::Value s = vj::Value::object(); s.set("grammar", g.show()); s.set("threads", (unsigned long long)T); s.set("ops", (unsigned long long)nops); s.set("overlapping_pairs", (unsigned long long)overlaps); st.sample(s); } }
    return Verdict::pass();
}

struct P_C15
{
    using Case = TCase;
#if defined(__has_feature)
#if __has_feature(thread_sanitizer)
#define E_THREADS_TSAN 1
#endif
#endif
#ifdef E_THREADS_TSAN
    static const char* id() { return "C15t"; }
#else
    static const char* id() { return "C15"; }
#endif
    static Case gen(Choice& ch)
    {
        Case c; c.g = gen_case(ch, ch.chance(1, 3) ? gg::RECOVERY : gg::ANY, 6, true, true, true);
        std::vector<gg::Input> deep_ones; for (auto& in : c.g.inputs) if (in.text.size() > 900) deep_ones.push_back(in);
        if (c.g.inputs.size() > 40) { eng::Rng r = ch.fork(); std::vector<gg::Input> keep; for (int i = 0; i < 40; ++i) keep.push_back(c.g.inputs[r.below(uint32_t(c.g.inputs.size()))]); c.g.inputs = keep; }
        size_t first_deep = c.g.inputs.size(); for (auto& in : deep_ones) c.g.inputs.push_back(in);
        int T = ch.chance(1, 3) ? 1 : 2 + int(ch.below(7));
        for (int t = 0; t < T; ++t)
        {
            std::vector<Op> ops; int n = 3 + int(ch.below(10));
            for (int i = 0; i < n; ++i)
            {
                Op op; op.input = c.g.inputs.empty() ? 0 : int(ch.below(uint32_t(c.g.inputs.size())));
                if (!deep_ones.empty() && ch.chance(1, 3)) op.input = int(first_deep + ch.below(uint32_t(deep_ones.size())));    // deep parses: the stacks outgrow their reservation
                op.kind = int(ch.weighted({6, 3, 1})); op.verbose = ch.chance(1, 4); op.stream = int(ch.below(3)); op.buffer = int(ch.below(2)); op.yields = int(ch.below(4));
                if (op.kind != 2 && ch.chance(1, 8)) op.fail_at = int(ch.below(4));
                if (op.kind != 2 && ch.chance(1, 8)) { op.nested_at = int(ch.below(4)); op.nested_input = c.g.inputs.empty() ? 0 : int(ch.below(uint32_t(std::min<size_t>(c.g.inputs.size(), 40)))); op.nested_verbose = ch.chance(1, 2); }
                ops.push_back(op);
            }
            c.threads.push_back(ops);
        }
        c.share_stream = T == 1 && !ch.chance(1, 3);
        return c;
    }
    static vj::Value to_json(const Case& c)
    {
        vj::Value v = gcase_to_json(c.g); vj::Value th = vj::Value::array();
        for (auto& t : c.threads) { vj::Value a = vj::Value::array(); for (auto& op : t) { vj::Value o = vj::Value::object(); o.set("input", op.input); o.set("kind", op.kind); o.set("verbose", op.verbose); o.set("stream", op.stream); o.set("buffer", op.buffer); o.set("yields", op.yields); if (op.fail_at >= 0) o.set("fail_at", op.fail_at); if (op.nested_at >= 0) { o.set("nested_at", op.nested_at); o.set("nested_input", op.nested_input); o.set("nested_verbose", op.nested_verbose); } a.push(o); } th.push(a); }
        v.set("threads", th); v.set("share_stream", c.share_stream); return v;
    }
    static Case from_json(const vj::Value& v)
    {
        Case c; c.g = gcase_from_json(v);
        for (size_t t = 0; t < v.at("threads").size(); ++t) { std::vector<Op> ops; const auto& a = v.at("threads").at(t); for (size_t i = 0; i < a.size(); ++i) { Op op; op.input = int(a.at(i).at("input").as_int()); op.kind = int(a.at(i).at("kind").as_int()); op.verbose = a.at(i).at("verbose").as_bool(); op.stream = int(a.at(i).at("stream").as_int()); op.buffer = int(a.at(i).at("buffer").as_int()); op.yields = int(a.at(i).at("yields").as_int()); if (a.at(i).has("fail_at")) op.fail_at = int(a.at(i).at("fail_at").as_int()); if (a.at(i).has("nested_at")) { op.nested_at = int(a.at(i).at("nested_at").as_int()); op.nested_input = int(a.at(i).at("nested_input").as_int()); op.nested_verbose = a.at(i).at("nested_verbose").as_bool(); } ops.push_back(op); } c.threads.push_back(ops); }
        if (v.has("share_stream")) c.share_stream = v.at("share_stream").as_bool();
        return c;
    }
    static std::vector<Case> shrinks(const Case& c, const vj::Value&)
    {
        std::vector<Case> out;
        for (size_t t = 0; t < c.threads.size(); ++t) if (c.threads.size() > 1) { Case d = c; d.threads.erase(d.threads.begin() + long(t)); out.push_back(d); }
        for (size_t t = 0; t < c.threads.size(); ++t) for (size_t i = 0; i < c.threads[t].size(); ++i) if (c.threads[t].size() > 1) { Case d = c; d.threads[t].erase(d.threads[t].begin() + long(i)); out.push_back(d); }
        for (size_t r = 0; r < c.g.g.rules.size(); ++r) { Case d = c; d.g.g.rules.erase(d.g.g.rules.begin() + long(r)); out.push_back(d); }
        return out;
    }
    static Verdict eval(const Case& c, Stats& st)
    {
        for (auto& t : c.threads) for (auto& op : t) if (op.kind != 2 && (op.input < 0 || size_t(op.input) >= c.g.inputs.size())) return Verdict::discard("bad-op");
        for (auto& t : c.threads) for (auto& op : t) if (op.nested_at >= 0 && (op.nested_input < 0 || size_t(op.nested_input) >= c.g.inputs.size())) return Verdict::discard("bad-op");
        return c.g.tmpl == 0 ? check_c15<TT36>(c, st) : check_c15<TT20>(c, st);
    }
};

int main(int argc, char** argv)
{
    eng::Args a = eng::parse_args(argc, argv);
    int rc = 2;
    eng::on_big_stack([&]
    {
        if (a.prop == "C15" || a.prop == "C15t") rc = eng::run_property<P_C15>(a);
        else { fprintf(stderr, "unknown --prop %s\n", a.prop.c_str()); rc = 2; }
    }, size_t(256) << 20);
    return rc;
}

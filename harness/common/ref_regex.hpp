// R2: reference for the documented regex syntax (README table + forms pinned by the tests):
//   recursive-descent parser -> AST -> Thompson NFA -> subset construction (DFA over 256 byte values),
//   Brzozowski-derivative matcher as a second opinion, classification VALID / MALFORMED / UNSPECIFIED,
// R4: product comparison of two DFAs (optionally labelled) giving a shortest distinguishing string.
#pragma once
#include <array>
#include <bitset>
#include <cstdint>
#include <deque>
#include <map>
#include <memory>
#include <set>
#include <string>
#include <vector>
#include <algorithm>
#include "engine.hpp"

namespace rx
{
using CSet = std::bitset<256>;

struct Node
{
    enum K { SET, CAT, ALT, STAR, PLUS, OPT, REP, EPS } k = EPS;
    CSet set;          // SET
    int n = 0;         // REP
    int a = -1, b = -1;
};

struct Ast
{
    std::vector<Node> nodes; int root = -1;
    int add(Node n) { nodes.push_back(n); return int(nodes.size()) - 1; }
    std::string show(int i = -2) const
    {
        if (i == -2) i = root;
        if (i < 0) return "?";
        const Node& n = nodes[size_t(i)];
        switch (n.k)
        {
        case Node::SET:
        {
            if (n.set.count() == 256) return ".";
            if (n.set.count() == 1) { for (int c = 0; c < 256; ++c) if (n.set[size_t(c)]) { if (c > 32 && c < 127) return std::string(1, char(c)); char b[8]; snprintf(b, sizeof b, "\\x%02X", c); return b; } }
            return "[set:" + std::to_string(n.set.count()) + "]";
        }
        case Node::CAT: return "(cat " + show(n.a) + " " + show(n.b) + ")";
        case Node::ALT: return "(alt " + show(n.a) + " " + show(n.b) + ")";
        case Node::STAR: return "(star " + show(n.a) + ")";
        case Node::PLUS: return "(plus " + show(n.a) + ")";
        case Node::OPT: return "(opt " + show(n.a) + ")";
        case Node::REP: return "(rep " + show(n.a) + " " + std::to_string(n.n) + ")";
        default: return "eps";
        }
    }
};

enum Class { VALID, MALFORMED, UNSPECIFIED };
struct Parsed
{
    Class cls = VALID;
    std::string why;           // category for MALFORMED, reason for UNSPECIFIED
    bool ok = false;           // an AST was produced
    Ast ast;
    int ops = 0;               // number of operators among * + ? {n} |
    bool has_rep = false, nested_rep = false; int rep_count = 0;
};

inline bool printable(unsigned char c) { return c >= 0x20 && c <= 0x7e; }
inline bool hexd(unsigned char c) { return (c >= '0' && c <= '9') || (c >= 'a' && c <= 'f') || (c >= 'A' && c <= 'F'); }
inline int hexv(unsigned char c) { return c <= '9' ? c - '0' : (c | 0x20) - 'a' + 10; }

struct PatParser
{
    const std::string& s; size_t p = 0;
    Parsed out;
    bool failed = false;
    std::string unspec;        // first UNSPECIFIED feature met
    explicit PatParser(const std::string& s) : s(s) {}
    bool eof() const { return p >= s.size(); }
    unsigned char cur() const { return (unsigned char)s[p]; }
    void note_unspec(const std::string& w) { if (unspec.empty()) unspec = w; }
    int fail(Class c, const std::string& why)
    {
        if (!failed)
        {
            failed = true;
            if (!unspec.empty()) { out.cls = UNSPECIFIED; out.why = unspec + " (then: " + why + ")"; }
            else { out.cls = c; out.why = why; }
        }
        return -1;
    }
    static bool is_quant(unsigned char c) { return c == '*' || c == '+' || c == '?' || c == '{'; }

    // escape at s[p] == '\\' ; returns char value or -1
    int escape()
    {
        ++p;
        // the documented syntax has "escaped char" = backslash + character: a backslash with nothing behind it is no production of it (and the pinned
        // library refuses it), so it is MALFORMED like the categories the property lists, not one of the lenient UNSPECIFIED constructs
        if (eof()) return fail(MALFORMED, "dangling escape (pattern ends with a backslash)");
        unsigned char c = cur();
        if (!printable(c)) return fail(MALFORMED, "raw non-printable byte");
        ++p;
        if (c == 'x')
        {
            if (eof() || !hexd(cur())) return 0;
            int v = hexv(cur()); ++p;
            if (eof() || !hexd(cur())) return v;
            v = v * 16 + hexv(cur()); ++p;
            return v;
        }
        if ((c >= 'a' && c <= 'z') || (c >= 'A' && c <= 'Z') || (c >= '0' && c <= '9')) note_unspec("letter/digit escape");
        return c;
    }
    int set_item_char()
    {
        if (eof()) return fail(MALFORMED, "unterminated set");
        unsigned char c = cur();
        if (c == '\\') return escape();
        if (!printable(c)) return fail(MALFORMED, "raw non-printable byte");
        ++p; return c;
    }
    int parse_set()
    {
        ++p; // '['
        bool inv = false; CSet cs;
        if (eof()) return fail(MALFORMED, "unterminated set");
        if (cur() == '^') { inv = true; ++p; }
        if (eof()) return fail(MALFORMED, "unterminated set");
        if (cur() == ']') note_unspec("empty set");
        bool first = true;
        while (true)
        {
            if (eof()) return fail(MALFORMED, "unterminated set");
            if (cur() == ']') { ++p; break; }
            int c1 = set_item_char(); if (c1 < 0) return -1;
            (void)first; first = false;
            if (!eof() && cur() == '-')
            {
                // a '-' after an item starts a range unless the item itself was the range end just consumed
                ++p;
                if (eof()) return fail(MALFORMED, "unterminated set");
                if (cur() == ']') { note_unspec("'-' before the closing bracket"); return fail(UNSPECIFIED, "'-' before the closing bracket"); }
                int c2 = set_item_char(); if (c2 < 0) return -1;
                if (c2 < c1) note_unspec("reversed range");
                for (int c = c1; c <= c2; ++c) cs.set(size_t(c));
                // a '-' right after a range is literal when it closes the set ("[--Z-]" is pinned by the tests); anything else is dialect dependent
                if (p + 1 < s.size() && cur() == '-' && (unsigned char)s[p + 1] != ']') note_unspec("'-' after a range");
            }
            else cs.set(size_t(c1));
        }
        if (inv) cs.flip();
        Node n; n.k = Node::SET; n.set = cs; return out.ast.add(n);
    }
    int parse_primary(bool after_open_or_bar, bool at_start)
    {
        if (eof())
        {
            if (at_start) return fail(UNSPECIFIED, "empty pattern");
            return fail(MALFORMED, "empty alternative");
        }
        unsigned char c = cur();
        if (is_quant(c)) { (void)after_open_or_bar; return fail(MALFORMED, "leading quantifier"); }
        if (c == '}') return fail(MALFORMED, "dangling repetition");
        if (c == '|') return fail(MALFORMED, "empty alternative");
        if (c == ')') return fail(MALFORMED, "empty alternative or unbalanced group");
        if (c == '(')
        {
            ++p;
            if (!eof() && cur() == ')') return fail(UNSPECIFIED, "empty group");
            int e = parse_alt(true, false); if (e < 0) return -1;
            if (eof() || cur() != ')') return fail(MALFORMED, "unbalanced group");
            ++p; return e;
        }
        if (c == '[') return parse_set();
        if (c == '\\') { int v = escape(); if (v < 0) return -1; Node n; n.k = Node::SET; n.set.set(size_t(v)); return out.ast.add(n); }
        if (!printable(c)) return fail(MALFORMED, "raw non-printable byte");
        ++p;
        Node n; n.k = Node::SET;
        if (c == '.') n.set.set();
        else { if (c == ']') note_unspec("raw ']' outside a set"); n.set.set(c); }
        return out.ast.add(n);
    }
    int parse_q(bool after_open_or_bar, bool at_start)
    {
        int e = parse_primary(after_open_or_bar, at_start); if (e < 0) return -1;
        if (eof()) return e;
        unsigned char c = cur();
        if (c == '*' || c == '+' || c == '?')
        {
            ++p; Node n; n.k = c == '*' ? Node::STAR : c == '+' ? Node::PLUS : Node::OPT; n.a = e; e = out.ast.add(n); out.ops++;
        }
        else if (c == '{')
        {
            ++p;
            if (eof()) return fail(MALFORMED, "dangling repetition");
            if (cur() == '}') return fail(MALFORMED, "empty repetition");
            long v = 0; size_t digits = 0;
            while (!eof() && cur() >= '0' && cur() <= '9') { v = v * 10 + (cur() - '0'); if (v > 100000) v = 100000; ++p; ++digits; }
            if (digits == 0 || eof() || cur() != '}') return fail(MALFORMED, "dangling repetition");
            ++p; Node n; n.k = Node::REP; n.a = e; n.n = int(v);
            out.rep_count++; out.has_rep = true;
            // nested?
            std::vector<int> st{e};
            while (!st.empty()) { int x = st.back(); st.pop_back(); const Node& nn = out.ast.nodes[size_t(x)]; if (nn.k == Node::REP) out.nested_rep = true; if (nn.a >= 0) st.push_back(nn.a); if (nn.b >= 0) st.push_back(nn.b); }
            e = out.ast.add(n); out.ops++;
        }
        else return e;
        if (!eof() && is_quant(cur())) { note_unspec("two quantifiers in a row"); return fail(UNSPECIFIED, "two quantifiers in a row"); }
        return e;
    }
    int parse_concat(bool after_open_or_bar, bool at_start)
    {
        int e = parse_q(after_open_or_bar, at_start); if (e < 0) return -1;
        while (!eof() && cur() != '|' && cur() != ')')
        {
            int f = parse_q(false, false); if (f < 0) return -1;
            Node n; n.k = Node::CAT; n.a = e; n.b = f; e = out.ast.add(n);
        }
        return e;
    }
    int parse_alt(bool after_open, bool at_start)
    {
        // right-nested, as the library's own pattern grammar groups alternatives (the language does not depend on it)
        int e = parse_concat(after_open, at_start); if (e < 0) return -1;
        if (!eof() && cur() == '|')
        {
            ++p;
            int f = parse_alt(true, false); if (f < 0) return -1;
            Node n; n.k = Node::ALT; n.a = e; n.b = f; e = out.ast.add(n); out.ops++;
        }
        return e;
    }
    Parsed run()
    {
        for (unsigned char c : s) if (!printable(c)) { out.cls = MALFORMED; out.why = "raw non-printable byte"; return out; }
        int e = parse_alt(false, true);
        if (e >= 0 && !eof())
        {
            if (cur() == ')') fail(MALFORMED, "unbalanced group");
            else fail(UNSPECIFIED, "trailing text");
            e = -1;
        }
        if (e < 0) { out.ok = false; return out; }
        out.ok = true; out.ast.root = e;
        if (!unspec.empty()) { out.cls = UNSPECIFIED; out.why = unspec; }
        else out.cls = VALID;
        return out;
    }
};
inline Parsed parse_pattern(const std::string& s) { PatParser pp(s); return pp.run(); }

// ---------------------------------------------------------------------------------------------
// DFA (total over the 256 byte values; state -1 = dead)
struct Dfa
{
    std::vector<std::array<int, 256>> tr;
    std::vector<int> label;       // -1 = not accepting, otherwise the recognised term (0 for single patterns)
    size_t size() const { return tr.size(); }
};

struct Nfa
{
    struct St { std::vector<std::pair<CSet, int>> edges; std::vector<int> eps; };
    std::vector<St> st;
    int add() { st.emplace_back(); return int(st.size()) - 1; }
};

inline std::pair<int, int> thompson(const Ast& a, int i, Nfa& n, size_t limit, bool& overflow)
{
    if (n.st.size() > limit) { overflow = true; int s = n.add(); return {s, s}; }
    const Node& nd = a.nodes[size_t(i)];
    switch (nd.k)
    {
    case Node::SET: { int s = n.add(), t = n.add(); n.st[size_t(s)].edges.push_back({nd.set, t}); return {s, t}; }
    case Node::EPS: { int s = n.add(); return {s, s}; }
    case Node::CAT: { auto x = thompson(a, nd.a, n, limit, overflow); auto y = thompson(a, nd.b, n, limit, overflow); n.st[size_t(x.second)].eps.push_back(y.first); return {x.first, y.second}; }
    case Node::ALT: { int s = n.add(), t = n.add(); auto x = thompson(a, nd.a, n, limit, overflow); auto y = thompson(a, nd.b, n, limit, overflow); n.st[size_t(s)].eps.push_back(x.first); n.st[size_t(s)].eps.push_back(y.first); n.st[size_t(x.second)].eps.push_back(t); n.st[size_t(y.second)].eps.push_back(t); return {s, t}; }
    case Node::STAR: { int s = n.add(), t = n.add(); auto x = thompson(a, nd.a, n, limit, overflow); n.st[size_t(s)].eps.push_back(x.first); n.st[size_t(s)].eps.push_back(t); n.st[size_t(x.second)].eps.push_back(x.first); n.st[size_t(x.second)].eps.push_back(t); return {s, t}; }
    case Node::PLUS: { int t = n.add(); auto x = thompson(a, nd.a, n, limit, overflow); n.st[size_t(x.second)].eps.push_back(x.first); n.st[size_t(x.second)].eps.push_back(t); return {x.first, t}; }
    case Node::OPT: { int s = n.add(), t = n.add(); auto x = thompson(a, nd.a, n, limit, overflow); n.st[size_t(s)].eps.push_back(x.first); n.st[size_t(s)].eps.push_back(t); n.st[size_t(x.second)].eps.push_back(t); return {s, t}; }
    case Node::REP:
    {
        int s = n.add(); int curr = s;
        for (int k = 0; k < nd.n; ++k) { auto x = thompson(a, nd.a, n, limit, overflow); n.st[size_t(curr)].eps.push_back(x.first); curr = x.second; if (overflow) break; }
        return {s, curr};
    }
    }
    int s = n.add(); return {s, s};
}

// subset construction for several labelled NFAs sharing a start (labels: lowest index wins)
inline bool determinize(const Nfa& n, const std::vector<int>& starts, const std::map<int, int>& accept_label, Dfa& d, size_t state_limit = 3000)
{
    auto closure = [&](std::vector<int>& v)
    {
        std::vector<bool> in(n.st.size(), false); std::vector<int> work = v; for (int x : v) in[size_t(x)] = true;
        while (!work.empty()) { int x = work.back(); work.pop_back(); for (int e : n.st[size_t(x)].eps) if (!in[size_t(e)]) { in[size_t(e)] = true; v.push_back(e); work.push_back(e); } }
        std::sort(v.begin(), v.end());
    };
    std::map<std::vector<int>, int> idx;
    std::vector<std::vector<int>> sets;
    std::vector<int> s0 = starts; closure(s0);
    idx[s0] = 0; sets.push_back(s0);
    auto label_of = [&](const std::vector<int>& v) { int best = -1; for (int x : v) { auto f = accept_label.find(x); if (f != accept_label.end() && (best < 0 || f->second < best)) best = f->second; } return best; };
    d.tr.clear(); d.label.clear();
    for (size_t i = 0; i < sets.size(); ++i)
    {
        if (sets.size() > state_limit) return false;
        std::vector<int> cur = sets[i];
        std::array<int, 256> row; row.fill(-1);
        // group bytes by target set signature
        std::map<std::vector<int>, std::vector<int>> by_target;
        for (int c = 0; c < 256; ++c)
        {
            std::vector<int> tg;
            for (int x : cur) for (auto& e : n.st[size_t(x)].edges) if (e.first[size_t(c)]) tg.push_back(e.second);
            if (tg.empty()) continue;
            std::sort(tg.begin(), tg.end()); tg.erase(std::unique(tg.begin(), tg.end()), tg.end());
            by_target[tg].push_back(c);
        }
        for (auto& kv : by_target)
        {
            std::vector<int> tg = kv.first; closure(tg);
            auto f = idx.find(tg); int j;
            if (f == idx.end()) { j = int(sets.size()); idx[tg] = j; sets.push_back(tg); } else j = f->second;
            for (int c : kv.second) row[size_t(c)] = j;
        }
        d.tr.push_back(row); d.label.push_back(label_of(cur));
    }
    return true;
}

inline bool ast_to_dfa(const Ast& a, Dfa& d, size_t nfa_limit = 20000)
{
    Nfa n; bool of = false;
    auto se = thompson(a, a.root, n, nfa_limit, of);
    if (of) return false;
    std::map<int, int> acc; acc[se.second] = 0;
    return determinize(n, {se.first}, acc, d);
}

inline int dfa_run(const Dfa& d, const std::string& s)
{
    int q = 0; for (unsigned char c : s) { if (q < 0) return -1; q = d.tr[size_t(q)][c]; }
    return q < 0 ? -1 : d.label[size_t(q)];
}

// a member of the language of at least `target` bytes (exactly `target` when the pumped cycle has length 1 or divides the rest): u v^k z with u = a shortest path
// to a state on a cycle from which an accepting state can be reached, v = a shortest cycle through it, z = a shortest path to acceptance. false = finite language.
inline bool long_member(const Dfa& d, size_t target, uint64_t pick, std::string& out)
{
    const size_t n = d.size(); if (!n) return false;
    std::vector<int> pred(n, -2), predc(n, 0); std::vector<int> order; pred[0] = -1; order.push_back(0);
    for (size_t i = 0; i < order.size(); ++i) { int q = order[i]; for (int c = 0; c < 256; ++c) { int t = d.tr[size_t(q)][size_t(c)]; if (t >= 0 && pred[size_t(t)] == -2) { pred[size_t(t)] = q; predc[size_t(t)] = c; order.push_back(t); } } }
    // co-reachability with a next step towards acceptance
    std::vector<int> nxt(n, -2), nxtc(n, 0); std::vector<int> work;
    for (size_t q = 0; q < n; ++q) if (d.label[q] >= 0) { nxt[q] = -1; work.push_back(int(q)); }
    for (size_t i = 0; i < work.size(); ++i) { int t = work[i]; for (size_t q = 0; q < n; ++q) if (nxt[q] == -2) for (int c = 0; c < 256; ++c) if (d.tr[q][size_t(c)] == t) { nxt[q] = t; nxtc[q] = c; work.push_back(int(q)); break; } }
    // candidate states on a cycle
    std::vector<std::pair<int, std::string>> cands;
    for (int s : order)
    {
        if (nxt[size_t(s)] == -2) continue;
        std::vector<int> p2(n, -2), p2c(n, 0); std::vector<int> o2; bool found = false; int last = -1, lastc = 0;
        for (int c = 0; c < 256 && !found; ++c) { int t = d.tr[size_t(s)][size_t(c)]; if (t < 0 || nxt[size_t(t)] == -2) continue; if (t == s) { found = true; last = -1; lastc = c; break; } if (p2[size_t(t)] == -2) { p2[size_t(t)] = -1; p2c[size_t(t)] = c; o2.push_back(t); } }
        std::string v;
        if (found) v = std::string(1, char(lastc));
        else
        {
            for (size_t i = 0; i < o2.size() && !found; ++i) { int q = o2[i]; for (int c = 0; c < 256; ++c) { int t = d.tr[size_t(q)][size_t(c)]; if (t < 0 || nxt[size_t(t)] == -2) continue; if (t == s) { found = true; last = q; lastc = c; break; } if (p2[size_t(t)] == -2) { p2[size_t(t)] = q; p2c[size_t(t)] = c; o2.push_back(t); } } }
            if (!found) continue;
            v = std::string(1, char(lastc)); for (int q = last; q != -1; q = p2[size_t(q)]) v.insert(v.begin(), char(p2c[size_t(q)]));
        }
        cands.push_back({s, v});
        if (cands.size() >= 6) break;
    }
    if (cands.empty()) return false;
    auto& cd = cands[size_t(pick % cands.size())];
    std::string u; for (int q = cd.first; pred[size_t(q)] != -1; q = pred[size_t(q)]) u.insert(u.begin(), char(predc[size_t(q)]));
    std::string z; for (int q = cd.first; nxt[size_t(q)] != -1; q = nxt[size_t(q)]) z.push_back(char(nxtc[size_t(q)]));
    size_t fixed = u.size() + z.size(); size_t k = target > fixed ? (target - fixed + cd.second.size() - 1) / cd.second.size() : 1;
    out = u; out.reserve(fixed + k * cd.second.size()); for (size_t i = 0; i < k; ++i) out += cd.second; out += z;
    return true;
}

// Brzozowski derivatives on the AST (second opinion on single strings)
struct Deriv
{
    const Ast& a;
    explicit Deriv(const Ast& a) : a(a) {}
    // regex terms as a small persistent structure
    struct R { int k; CSet set; int n; std::shared_ptr<R> x, y; };   // k: 0 empty-language 1 eps 2 set 3 cat 4 alt 5 star
    using P = std::shared_ptr<R>;
    // derivatives are not normalised (no alt idempotence), so ambiguous patterns make them grow exponentially with the string: a node budget turns
    // that into "no second opinion" instead of minutes and gigabytes
    static size_t& made() { static thread_local size_t n = 0; return n; }
    struct out_of_budget {};
    static P mk(int k) { if (++made() > 400000) throw out_of_budget{}; auto r = std::make_shared<R>(); r->k = k; r->n = 0; return r; }
    static P none() { static P p = mk(0); return p; }
    static P eps() { static P p = mk(1); return p; }
    static P cat(P x, P y) { if (x->k == 0 || y->k == 0) return none(); if (x->k == 1) return y; if (y->k == 1) return x; auto r = mk(3); r->x = x; r->y = y; return r; }
    static P alt(P x, P y) { if (x->k == 0) return y; if (y->k == 0) return x; auto r = mk(4); r->x = x; r->y = y; return r; }
    static P star(P x) { if (x->k == 0 || x->k == 1) return eps(); auto r = mk(5); r->x = x; return r; }
    P conv(int i) const
    {
        const Node& n = a.nodes[size_t(i)];
        switch (n.k)
        {
        case Node::SET: { if (n.set.none()) return none(); auto r = mk(2); r->set = n.set; return r; }
        case Node::EPS: return eps();
        case Node::CAT: return cat(conv(n.a), conv(n.b));
        case Node::ALT: return alt(conv(n.a), conv(n.b));
        case Node::STAR: return star(conv(n.a));
        case Node::PLUS: { P x = conv(n.a); return cat(x, star(x)); }
        case Node::OPT: return alt(eps(), conv(n.a));
        case Node::REP: { P x = conv(n.a); P r = eps(); for (int k = 0; k < n.n; ++k) r = cat(x, r); return r; }
        }
        return none();
    }
    static bool nullable(const P& r) { switch (r->k) { case 0: return false; case 1: return true; case 2: return false; case 3: return nullable(r->x) && nullable(r->y); case 4: return nullable(r->x) || nullable(r->y); default: return true; } }
    static P d(const P& r, unsigned char c)
    {
        switch (r->k)
        {
        case 0: case 1: return none();
        case 2: return r->set[c] ? eps() : none();
        case 3: { P l = cat(d(r->x, c), r->y); if (nullable(r->x)) return alt(l, d(r->y, c)); return l; }
        case 4: return alt(d(r->x, c), d(r->y, c));
        default: return cat(d(r->x, c), r);
        }
    }
    // 1 accepts, 0 rejects, -1 gave up (node budget)
    int match3(const std::string& s) const
    {
        made() = 0;
        try { P r = conv(a.root); for (unsigned char c : s) { r = d(r, c); if (r->k == 0) return 0; } return nullable(r) ? 1 : 0; }
        catch (const out_of_budget&) { return -1; }
    }
    bool match(const std::string& s) const { return match3(s) == 1; }
};

// R4: equivalence of two (partial) labelled DFAs; returns true if equivalent, else a shortest distinguishing string
inline bool equivalent(const Dfa& x, const Dfa& y, std::string& witness, size_t pair_limit = 400000, bool* inconclusive = nullptr)
{
    std::map<std::pair<int, int>, std::pair<std::pair<int, int>, int>> parent;
    std::deque<std::pair<int, int>> q;
    auto lab = [](const Dfa& d, int s) { return s < 0 ? -1 : d.label[size_t(s)]; };
    std::pair<int, int> s0{x.size() ? 0 : -1, y.size() ? 0 : -1};
    parent[s0] = {{-2, -2}, -1}; q.push_back(s0);
    while (!q.empty())
    {
        auto cur = q.front(); q.pop_front();
        if (lab(x, cur.first) != lab(y, cur.second))
        {
            std::string w; auto c = cur;
            while (parent[c].second >= 0) { w += char(parent[c].second); c = parent[c].first; }
            std::reverse(w.begin(), w.end()); witness = w; return false;
        }
        if (parent.size() > pair_limit) { if (inconclusive) *inconclusive = true; return true; }
        for (int c = 0; c < 256; ++c)
        {
            int a = cur.first < 0 ? -1 : x.tr[size_t(cur.first)][size_t(c)];
            int b = cur.second < 0 ? -1 : y.tr[size_t(cur.second)][size_t(c)];
            if (a < 0 && b < 0) continue;
            std::pair<int, int> nx{a, b};
            if (!parent.count(nx)) { parent[nx] = {cur, c}; q.push_back(nx); }
        }
    }
    return true;
}

// The library's in-place construction takes time exponential in the outer count for nested {n} over a nullable body
// ((((b?)?){10}){8} needs minutes). Construction time is not part of any listed property; such patterns are skipped and counted.
inline bool nullable_node(const Ast& a, int i)
{
    const Node& n = a.nodes[size_t(i)];
    switch (n.k)
    {
    case Node::SET: return false; case Node::EPS: case Node::STAR: case Node::OPT: return true;
    case Node::PLUS: return nullable_node(a, n.a);
    case Node::REP: return n.n == 0 || nullable_node(a, n.a);
    case Node::CAT: return nullable_node(a, n.a) && nullable_node(a, n.b);
    default: return nullable_node(a, n.a) || nullable_node(a, n.b);
    }
}
inline bool construction_explodes(const Ast& a, int i = -2, long outer = 1)
{
    if (i == -2) i = a.root;
    if (i < 0) return false;
    const Node& n = a.nodes[size_t(i)];
    long o = outer;
    if (n.k == Node::REP && n.n > 1) { o = outer * n.n; if (outer > 1 && o > 24 && nullable_node(a, n.a)) return true; }
    return construction_explodes(a, n.a, o) || construction_explodes(a, n.b, o);
}

// rendering of a generated AST back to pattern text (with the escapes the syntax needs)
inline std::string render_char(int c, bool in_set, eng::Rng* rng)
{
    auto hex2 = [&](int v) { char b[8]; snprintf(b, sizeof b, (rng && rng->chance(1, 2)) ? "\\x%02X" : "\\x%02x", v); return std::string(b); };
    if (c < 0x20 || c > 0x7e) return hex2(c);
    if (rng && rng->chance(1, 16)) return hex2(c);
    const char* special_out = "*+?|(){}[].\\]^-";
    const char* special_in = "]\\^-[";
    const char* sp = in_set ? special_in : special_out;
    for (const char* q = sp; *q; ++q) if (*q == c) return std::string("\\") + char(c);
    return std::string(1, char(c));
}
}

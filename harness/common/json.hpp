// Minimal JSON value (parse + dump) for case files and worker summaries.
#pragma once
#include <cstdint>
#include <cstdio>
#include <map>
#include <memory>
#include <sstream>
#include <stdexcept>
#include <string>
#include <vector>
#include <fstream>

namespace vj
{
struct Value;
using Array = std::vector<Value>;
using Object = std::vector<std::pair<std::string, Value>>;   // insertion ordered

struct Value
{
    enum Kind { Null, Bool, Int, Dbl, Str, Arr, Obj } kind = Null;
    bool b = false;
    long long i = 0;
    double d = 0;
    std::string s;
    std::shared_ptr<Array> a;
    std::shared_ptr<Object> o;

    Value() {}
    Value(bool v) : kind(Bool), b(v) {}
    Value(int v) : kind(Int), i(v) {}
    Value(unsigned v) : kind(Int), i(v) {}
    Value(long v) : kind(Int), i(v) {}
    Value(long long v) : kind(Int), i(v) {}
    Value(unsigned long v) : kind(Int), i((long long)v) {}
    Value(unsigned long long v) : kind(Int), i((long long)v) {}
    Value(double v) : kind(Dbl), d(v) {}
    Value(const char* v) : kind(Str), s(v) {}
    Value(const std::string& v) : kind(Str), s(v) {}
    static Value array() { Value v; v.kind = Arr; v.a = std::make_shared<Array>(); return v; }
    static Value object() { Value v; v.kind = Obj; v.o = std::make_shared<Object>(); return v; }

    bool is_null() const { return kind == Null; }
    Value& push(const Value& v) { if (kind != Arr) *this = array(); a->push_back(v); return *this; }
    Value& set(const std::string& k, const Value& v)
    {
        if (kind != Obj) *this = object();
        for (auto& kv : *o) if (kv.first == k) { kv.second = v; return *this; }
        o->push_back({k, v});
        return *this;
    }
    bool has(const std::string& k) const
    {
        if (kind != Obj) return false;
        for (auto& kv : *o) if (kv.first == k) return true;
        return false;
    }
    const Value& at(const std::string& k) const
    {
        static Value nul;
        if (kind != Obj) return nul;
        for (auto& kv : *o) if (kv.first == k) return kv.second;
        return nul;
    }
    Value& ref(const std::string& k)
    {
        if (kind != Obj) *this = object();
        for (auto& kv : *o) if (kv.first == k) return kv.second;
        o->push_back({k, Value()});
        return o->back().second;
    }
    const Value& at(size_t idx) const { static Value nul; if (kind != Arr || idx >= a->size()) return nul; return (*a)[idx]; }
    size_t size() const { return kind == Arr ? a->size() : kind == Obj ? o->size() : 0; }
    long long as_int(long long def = 0) const { return kind == Int ? i : kind == Dbl ? (long long)d : kind == Bool ? b : def; }
    bool as_bool(bool def = false) const { return kind == Bool ? b : kind == Int ? i != 0 : def; }
    std::string as_str(const std::string& def = "") const { return kind == Str ? s : def; }

    static void esc(std::string& out, const std::string& s)
    {
        out += '"';
        for (unsigned char c : s)
        {
            if (c == '"') out += "\\\"";
            else if (c == '\\') out += "\\\\";
            else if (c == '\n') out += "\\n";
            else if (c == '\t') out += "\\t";
            else if (c == '\r') out += "\\r";
            else if (c < 0x20 || c >= 0x7f) { char b[8]; snprintf(b, sizeof b, "\\u%04x", c); out += b; }
            else out += char(c);
        }
        out += '"';
    }
    void dump(std::string& out) const
    {
        switch (kind)
        {
        case Null: out += "null"; break;
        case Bool: out += b ? "true" : "false"; break;
        case Int: out += std::to_string(i); break;
        case Dbl: { char buf[40]; snprintf(buf, sizeof buf, "%.6g", d); out += buf; break; }
        case Str: esc(out, s); break;
        case Arr:
            out += '[';
            for (size_t k = 0; k < a->size(); ++k) { if (k) out += ','; (*a)[k].dump(out); }
            out += ']';
            break;
        case Obj:
            out += '{';
            for (size_t k = 0; k < o->size(); ++k) { if (k) out += ','; esc(out, (*o)[k].first); out += ':'; (*o)[k].second.dump(out); }
            out += '}';
            break;
        }
    }
    std::string dump() const { std::string s; dump(s); return s; }
};

struct Parser
{
    const std::string& t;
    size_t p = 0;
    Parser(const std::string& t) : t(t) {}
    void ws() { while (p < t.size() && (t[p] == ' ' || t[p] == '\n' || t[p] == '\t' || t[p] == '\r')) ++p; }
    [[noreturn]] void fail(const char* m) { throw std::runtime_error(std::string("json: ") + m + " at " + std::to_string(p)); }
    Value parse()
    {
        ws();
        if (p >= t.size()) fail("eof");
        char c = t[p];
        if (c == '{')
        {
            ++p; Value v = Value::object(); ws();
            if (t[p] == '}') { ++p; return v; }
            while (true)
            {
                ws(); if (t[p] != '"') fail("key");
                std::string k = str(); ws();
                if (t[p] != ':') fail("colon");
                ++p;
                Value x = parse();
                v.o->push_back({k, x});
                ws();
                if (t[p] == ',') { ++p; continue; }
                if (t[p] == '}') { ++p; break; }
                fail("obj");
            }
            return v;
        }
        if (c == '[')
        {
            ++p; Value v = Value::array(); ws();
            if (t[p] == ']') { ++p; return v; }
            while (true)
            {
                v.a->push_back(parse()); ws();
                if (t[p] == ',') { ++p; continue; }
                if (t[p] == ']') { ++p; break; }
                fail("arr");
            }
            return v;
        }
        if (c == '"') return Value(str());
        if (t.compare(p, 4, "true") == 0) { p += 4; return Value(true); }
        if (t.compare(p, 5, "false") == 0) { p += 5; return Value(false); }
        if (t.compare(p, 4, "null") == 0) { p += 4; return Value(); }
        size_t q = p; bool dbl = false;
        while (q < t.size() && (isdigit((unsigned char)t[q]) || t[q] == '-' || t[q] == '+' || t[q] == '.' || t[q] == 'e' || t[q] == 'E'))
        { if (t[q] == '.' || t[q] == 'e' || t[q] == 'E') dbl = true; ++q; }
        if (q == p) fail("value");
        std::string num = t.substr(p, q - p); p = q;
        if (dbl) return Value(std::stod(num));
        return Value((long long)std::stoll(num));
    }
    std::string str()
    {
        std::string out; ++p;
        while (p < t.size() && t[p] != '"')
        {
            if (t[p] == '\\')
            {
                ++p; char c = t[p++];
                switch (c)
                {
                case 'n': out += '\n'; break; case 't': out += '\t'; break; case 'r': out += '\r'; break;
                case 'b': out += '\b'; break; case 'f': out += '\f'; break;
                case 'u': { unsigned v = std::stoul(t.substr(p, 4), nullptr, 16); p += 4; out += char(v & 0xff); break; }
                default: out += c;
                }
            }
            else out += t[p++];
        }
        ++p;
        return out;
    }
};

inline Value parse(const std::string& s) { Parser p(s); return p.parse(); }
inline Value load(const std::string& path)
{
    std::ifstream f(path, std::ios::binary);
    if (!f) throw std::runtime_error("cannot open " + path);
    std::stringstream ss; ss << f.rdbuf();
    return parse(ss.str());
}
inline void save(const std::string& path, const Value& v)
{
    std::ofstream f(path, std::ios::binary | std::ios::trunc);
    f << v.dump() << "\n";
}
inline std::string hex(const std::string& s)
{
    static const char* d = "0123456789abcdef"; std::string o;
    for (unsigned char c : s) { o += d[c >> 4]; o += d[c & 15]; }
    return o;
}
inline std::string unhex(const std::string& h)
{
    std::string o;
    for (size_t i = 0; i + 1 < h.size(); i += 2) o += char(std::stoul(h.substr(i, 2), nullptr, 16));
    return o;
}
}

// Template parsers for run-time grammar injection (DESIGN.md 4.1).
// All symbols carry the same value type term_value<V>, so any rule over the template's symbols is well typed
// for the real value_reductors. Functors log every call and return a non-commutative hash of (slot, args...).
#pragma once
#include "access.hpp"
#include <thread>
#include <functional>
#include <atomic>
#include <pthread.h>

namespace tpl
{
struct V { uint64_t h = 0; };
using TV = ctpg::term_value<V>;

struct ArgInfo { uint64_t h; uint32_t line, col; bool is_err; bool unexpected = false; uint32_t sp_line = 0, sp_col = 0; };
struct RuleCall { int slot; std::vector<ArgInfo> args; uint64_t value; bool had_ctx; const void* ctx_addr; bool ctx_const; bool ctx_lvalue = false; long ctx_seen = -1; };

// caller contexts for C13
struct Ctx { std::vector<int> seen; uint64_t magic = 0xC0FFEE; };
struct MCtx { std::vector<int> seen; uint64_t magic = 0xC0FFEE; MCtx() = default; MCtx(const MCtx&) = delete; MCtx& operator=(const MCtx&) = delete; MCtx(MCtx&&) = default; MCtx& operator=(MCtx&&) = default; };
template<class C> long touch_ctx(C&, int) { return -1; }                      // no_type, const contexts: nothing to mutate
inline long touch_ctx(Ctx& c, int slot) { long n = long(c.seen.size()); c.seen.push_back(slot); return c.magic == 0xC0FFEE ? n : -2; }
inline long touch_ctx(MCtx& c, int slot) { long n = long(c.seen.size()); c.seen.push_back(slot); return c.magic == 0xC0FFEE ? n : -2; }
inline long touch_ctx(const Ctx& c, int) { return c.magic == 0xC0FFEE ? long(c.seen.size()) : -2; }
// context types of other shapes: a small trivially copyable struct (fits a register) and a raw pointer
struct PodCtx { int count = 0; int last = -1; };
inline long touch_ctx(PodCtx& c, int slot) { long n = c.count; ++c.count; c.last = slot; return n; }
inline long touch_ctx(const PodCtx& c, int) { return c.count; }
inline long touch_ctx(Ctx*& c, int slot) { long n = long(c->seen.size()); c->seen.push_back(slot); return c->magic == 0xC0FFEE ? n : -2; }
struct TermCall { int term; const char* data; size_t size; };
struct CallLog
{
    std::vector<RuleCall> rules;
    std::vector<TermCall> terms;
    bool empty_lexeme = false;
    void clear() { rules.clear(); terms.clear(); empty_lexeme = false; }
};
inline thread_local CallLog* g_log = nullptr;

struct empty_lexeme_error : std::runtime_error { empty_lexeme_error() : std::runtime_error("term functor received an empty lexeme") {} };

template<int T>
struct TermF
{
    V operator()(std::string_view sv) const
    {
        if (g_log) { g_log->terms.push_back(TermCall{T, sv.data(), sv.size()}); }
        if (sv.empty()) { if (g_log) g_log->empty_lexeme = true; throw empty_lexeme_error(); }
        return V{ref::term_value_hash(T, std::string(sv))};
    }
};

// the same functor TYPE for every term, told apart by its state (typed terms written with one functor class and different constructor
// arguments, e.g. typed_term(char_term('+'), as_op{op::add}) / typed_term(char_term('-'), as_op{op::sub}))
// a functor that is callable both as a const and as a non-const object: a const parser must pick the const overload (C15: parse() cannot write into the parser)
inline std::atomic<long> g_nonconst_calls{0};

struct TermFS
{
    int t = 0;
    V operator()(std::string_view sv) { ++g_nonconst_calls; return static_cast<const TermFS&>(*this)(sv); }
    V operator()(std::string_view sv) const
    {
        if (g_log) { g_log->terms.push_back(TermCall{t, sv.data(), sv.size()}); }
        if (sv.empty()) { if (g_log) g_log->empty_lexeme = true; throw empty_lexeme_error(); }
        return V{ref::term_value_hash(t, std::string(sv))};
    }
};

inline ArgInfo arginfo(const TV& v) { ArgInfo a{v.get_value().h, v.get_line(), v.get_column(), false}; a.sp_line = v.get_sp().line; a.sp_col = v.get_sp().column; return a; }   // both ways a functor can read the position
inline ArgInfo arginfo(const ctpg::no_type&) { return ArgInfo{ref::ERROR_VALUE_HASH, 0, 0, true}; }
// anything else reaching a rule functor (e.g. a context handed to a '>=' functor) is recorded, not a build error
template<class X> ArgInfo arginfo(const X&) { ArgInfo a{0xBADBADULL, 0, 0, false}; a.unexpected = true; return a; }

// hooks for histories (C15): the k-th rule functor call of the running operation throws, or starts another operation on the same parser
struct injected_failure : std::runtime_error { injected_failure() : std::runtime_error("functor failure injected by the harness") {} };
inline thread_local long g_functor_calls = 0, g_fail_at = -1, g_nested_at = -1;
inline thread_local std::function<void()>* g_nested_hook = nullptr;
inline void functor_hooks()
{
    long k = g_functor_calls++;
    if (k == g_nested_at && g_nested_hook) { auto* h = g_nested_hook; g_nested_hook = nullptr; g_nested_at = -1; long fa = g_fail_at; g_fail_at = -1; (*h)(); g_fail_at = fa; }
    if (k == g_fail_at) { g_fail_at = -1; throw injected_failure(); }
}

template<int R>
struct F
{
    template<class... A>
    TV operator()(A&&... a) { ++g_nonconst_calls; return static_cast<const F&>(*this)(std::forward<A>(a)...); }
    template<class... A>
    TV operator()(A&&... a) const
    {
        functor_hooks();
        RuleCall c; c.slot = R; c.had_ctx = false; c.ctx_addr = nullptr; c.ctx_const = false;
        (c.args.push_back(arginfo(a)), ...);
        std::vector<uint64_t> kids; for (auto& x : c.args) kids.push_back(x.h);
        c.value = ref::rule_value_hash(R, kids);
        uint64_t v = c.value;
        if (g_log) g_log->rules.push_back(std::move(c));
        return TV(V{v}, ctpg::source_point{0, 0});
    }
};

template<int R>
struct FC
{
    template<class C, class... A>
    TV operator()(C&& ctx, A&&... a) { ++g_nonconst_calls; return static_cast<const FC&>(*this)(std::forward<C>(ctx), std::forward<A>(a)...); }
    template<class C, class... A>
    TV operator()(C&& ctx, A&&... a) const
    {
        functor_hooks();
        RuleCall c; c.slot = R; c.had_ctx = true; c.ctx_addr = static_cast<const void*>(&ctx);
        c.ctx_const = std::is_const_v<std::remove_reference_t<C>>;
        c.ctx_lvalue = std::is_lvalue_reference_v<C>;
        c.ctx_seen = touch_ctx(ctx, R);
        (c.args.push_back(arginfo(a)), ...);
        std::vector<uint64_t> kids; for (auto& x : c.args) kids.push_back(x.h);
        c.value = ref::rule_value_hash(R, kids);
        uint64_t v = c.value;
        if (g_log) g_log->rules.push_back(std::move(c));
        return TV(V{v}, ctpg::source_point{0, 0});
    }
};

using eng::on_big_stack;

// ----------------------------------------------------------------------------------------------
// T36: 6 terms a..f, 6 usable nonterminals + PARK, 36 rule slots of fixed (arity, error positions, functor kind)
constexpr int T36_NT = 6;        // usable nonterminals N0..N5
constexpr int T36_PARK = 6;
constexpr int T36_TERMS = 6;

struct SlotInfo { std::vector<int> pattern; char kind; };   // pattern: 0 = ordinary symbol, 1 = error ; kind: f / c / d

inline const std::vector<SlotInfo>& t36_slots()
{
    static const std::vector<SlotInfo> s = []
    {
        const char* spec[] = {
            "xx f", "x f", "xxx f", " f", "x d", "xx c", "xe f", "xxx f", "x f", "xx f", " f", "xex f",
            "xxxx f", "x c", "xx f", "e f", "xxx c", "x d", "xx f", " c", "ex f", "xxx f", "x f", "xxxx f",
            "xx f", "exx f", "x f", " f", "xxe f", "xxx f", "xx c", "x f", "xxxx c", "xx f", "x f", "xxx f",
            "xxxxx f", "xxxxxx f", "xxxxx c"};
        std::vector<SlotInfo> v;
        for (const char* sp : spec)
        {
            SlotInfo si; const char* q = sp;
            while (*q != ' ') { si.pattern.push_back(*q == 'e' ? 1 : 0); ++q; }
            si.kind = q[1];
            v.push_back(si);
        }
        return v;
    }();
    return s;
}
inline std::vector<std::vector<int>> t36_patterns() { std::vector<std::vector<int>> p; for (auto& s : t36_slots()) p.push_back(s.pattern); return p; }

// terms of the templates: char terms with a typed functor (generated lexer) or custom terms (use_lexer<L>)
template<class LexerUsage, int I>
auto make_tterm(const char* name)
{
    if constexpr (std::is_same_v<LexerUsage, ctpg::use_generated_lexer>) return ctpg::typed_term(ctpg::char_term(name[0]), TermF<I>{});
    else return ctpg::custom_term(name, TermF<I>{});
}


// (precedence, associativity) reported by a term object that is built the way a user writes it: the template's term kind (custom_term under
// use_lexer<L>; char / typed / string / regex terms under the generated lexer), with the shorter constructor overloads when the values are defaults
constexpr char dsl_rx_pattern[] = "[0-9]+";
template<class LexerUsage>
std::pair<int, int> dsl_term_attrs(int which, int prec, int assoc)
{
    using namespace ctpg;
    associativity a = associativity(assoc);
    auto rep = [](const auto& t) { return std::pair<int, int>(t.get_precedence(), int(t.get_associativity())); };
    if constexpr (!std::is_same_v<LexerUsage, use_generated_lexer>)
    {
        if (prec == 0 && assoc == 0 && which % 2 == 0) return rep(custom_term("x", TermF<0>{}));
        if (assoc == 0 && which % 2 == 1) return rep(custom_term("x", TermF<0>{}, prec));
        return rep(custom_term("x", TermF<0>{}, prec, a));
    }
    else
    {
        const bool dflt = prec == 0 && assoc == 0, noassoc = assoc == 0;
        switch (which % 5)
        {
        case 0: return dflt ? rep(char_term('a')) : noassoc ? rep(char_term('a', prec)) : rep(char_term('a', prec, a));
        case 1: return rep(typed_term(char_term('a', prec, a), TermF<0>{}));
        case 2: return dflt ? rep(string_term("kw")) : noassoc ? rep(string_term("kw", prec)) : rep(string_term("kw", prec, a));
        case 3: return dflt ? rep(regex_term<dsl_rx_pattern>("num")) : rep(regex_term<dsl_rx_pattern>("num", prec, a));
        default: return noassoc && prec != 0 ? rep(regex_term<dsl_rx_pattern>(prec)) : rep(regex_term<dsl_rx_pattern>(prec, a));
        }
    }
}

template<class Limits, class LexerUsage = ctpg::use_generated_lexer>
auto make_t36(Limits lim, LexerUsage lu = LexerUsage{})
{
    using namespace ctpg;
    constexpr nterm<TV> n0("N0"), n1("N1"), n2("N2"), n3("N3"), n4("N4"), n5("N5"), park("PARK");
    auto ta = make_tterm<LexerUsage, 0>("a");
    auto tb = make_tterm<LexerUsage, 1>("b");
    auto tc = make_tterm<LexerUsage, 2>("c");
    auto td = make_tterm<LexerUsage, 3>("d");
    auto te = make_tterm<LexerUsage, 4>("e");
    auto tf = make_tterm<LexerUsage, 5>("f");
    return parser(
        n0,
        terms(ta, tb, tc, td, te, tf),
        nterms(n0, n1, n2, n3, n4, n5, park),
        rules(
            park(ta, ta) >= F<0>{},
            n0(ta) >= F<1>{},
            park(ta, ta, ta) >= F<2>{},
            park() >= F<3>{},
            park(n0),
            park(ta, ta) >>= FC<5>{},
            park(ta, error) >= F<6>{},
            park(ta, ta, ta) >= F<7>{},
            park(ta) >= F<8>{},
            park(ta, ta) >= F<9>{},
            park() >= F<10>{},
            park(ta, error, ta) >= F<11>{},
            park(ta, ta, ta, ta) >= F<12>{},
            park(ta) >>= FC<13>{},
            park(ta, ta) >= F<14>{},
            park(error) >= F<15>{},
            park(ta, ta, ta) >>= FC<16>{},
            park(n0),
            park(ta, ta) >= F<18>{},
            park() >>= FC<19>{},
            park(error, ta) >= F<20>{},
            park(ta, ta, ta) >= F<21>{},
            park(ta) >= F<22>{},
            park(ta, ta, ta, ta) >= F<23>{},
            park(ta, ta) >= F<24>{},
            park(error, ta, ta) >= F<25>{},
            park(ta) >= F<26>{},
            park() >= F<27>{},
            park(ta, ta, error) >= F<28>{},
            park(ta, ta, ta) >= F<29>{},
            park(ta, ta) >>= FC<30>{},
            park(ta) >= F<31>{},
            park(ta, ta, ta, ta) >>= FC<32>{},
            park(ta, ta) >= F<33>{},
            park(ta) >= F<34>{},
            park(ta, ta, ta) >= F<35>{},
            park(ta, ta, ta, ta, ta) >= F<36>{},
            park(ta, ta, ta, ta, ta, ta) >= F<37>{},
            park(ta, ta, ta, ta, ta) >>= FC<38>{}
        ),
        lu,
        lim
    );
}

// ----------------------------------------------------------------------------------------------
// T20: same symbols, 22 rule slots of arity <= 2 (so "a maximal-length rule ending in a nonterminal" is the common case)
inline const std::vector<SlotInfo>& t20_slots()
{
    static const std::vector<SlotInfo> s = []
    {
        const char* spec[] = {
            "xx f", "x f", " f", "xx f", "x d", "xe f", "xx c", "x f", "xx f", " f", "e f",
            "x c", "xx f", "ex f", "x f", "xx f", " c", "xx f", "x f", "xx f", "x d", "xx f"};
        std::vector<SlotInfo> v;
        for (const char* sp : spec)
        {
            SlotInfo si; const char* q = sp;
            while (*q != ' ') { si.pattern.push_back(*q == 'e' ? 1 : 0); ++q; }
            si.kind = q[1];
            v.push_back(si);
        }
        return v;
    }();
    return s;
}

template<class Limits>
auto make_t20(Limits lim)
{
    using namespace ctpg;
    constexpr nterm<TV> n0("N0"), n1("N1"), n2("N2"), n3("N3"), n4("N4"), n5("N5"), park("PARK");
    // T20's six terms have ONE C++ type (typed_term<char_term, TermFS>); T36's have six different types
    auto ta = typed_term(char_term('a'), TermFS{0});
    auto tb = typed_term(char_term('b'), TermFS{1});
    auto tc = typed_term(char_term('c'), TermFS{2});
    auto td = typed_term(char_term('d'), TermFS{3});
    auto te = typed_term(char_term('e'), TermFS{4});
    auto tf = typed_term(char_term('f'), TermFS{5});
    return parser(
        n0,
        terms(ta, tb, tc, td, te, tf),
        nterms(n0, n1, n2, n3, n4, n5, park),
        rules(
            park(ta, ta) >= F<0>{},
            n0(ta) >= F<1>{},
            park() >= F<2>{},
            park(ta, ta) >= F<3>{},
            park(n0),
            park(ta, error) >= F<5>{},
            park(ta, ta) >>= FC<6>{},
            park(ta) >= F<7>{},
            park(ta, ta) >= F<8>{},
            park() >= F<9>{},
            park(error) >= F<10>{},
            park(ta) >>= FC<11>{},
            park(ta, ta) >= F<12>{},
            park(error, ta) >= F<13>{},
            park(ta) >= F<14>{},
            park(ta, ta) >= F<15>{},
            park() >>= FC<16>{},
            park(ta, ta) >= F<17>{},
            park(ta) >= F<18>{},
            park(ta, ta) >= F<19>{},
            park(n0),
            park(ta, ta) >= F<21>{}
        ),
        use_generated_lexer{},
        lim
    );
}

struct small_limits { static const size_t state_count_cap = 160; static const size_t max_sit_count_per_state_cap = 320; };

inline std::vector<std::vector<int>> patterns_of(const std::vector<SlotInfo>& sl) { std::vector<std::vector<int>> p; for (auto& s : sl) p.push_back(s.pattern); return p; }

template<class Limits>
struct T20
{
    using parser_type = decltype(make_t20(Limits{}));
    static const char* name() { return "T20"; }
    static const std::vector<SlotInfo>& slots() { return t20_slots(); }
    static parser_type* instance()
    {
        static parser_type* p = []
        {
            parser_type* r = nullptr;
            on_big_stack([&] { r = new parser_type(make_t20(Limits{})); });
            return r;
        }();
        return p;
    }
    static int dsl_prec(bool has, int prec)
    {
        constexpr ctpg::nterm<TV> n0("N0");
        if (has) return n0('a')[prec].get_precedence();
        return n0('a').get_precedence();
    }    static std::pair<int, int> dsl_term(int which, int prec, int assoc) { return dsl_term_attrs<ctpg::use_generated_lexer>(which, prec, assoc); }
};

template<class Limits, class LexerUsage = ctpg::use_generated_lexer>
struct T36
{
    static const char* name() { return "T36"; }
    static const std::vector<SlotInfo>& slots() { return t36_slots(); }
    using parser_type = decltype(make_t36(Limits{}, LexerUsage{}));
    static parser_type* instance()
    {
        static parser_type* p = []
        {
            parser_type* r = nullptr;
            on_big_stack([&] { r = new parser_type(make_t36(Limits{}, LexerUsage{})); });
            return r;
        }();
        return p;
    }
    // the value the DSL's rule object reports for "[n]" / no explicit precedence
    static int dsl_prec(bool has, int prec)
    {
        constexpr ctpg::nterm<TV> n0("N0");
        if (has) return n0('a')[prec].get_precedence();
        return n0('a').get_precedence();
    }    static std::pair<int, int> dsl_term(int which, int prec, int assoc) { return dsl_term_attrs<LexerUsage>(which, prec, assoc); }
};
}

// R5: clean-room model of the in-place "merge" automaton construction as it behaves at the pinned commit (finding F5).
// Classifier only: it never decides correctness (SPEC does). It identifies "the same wrong answer the pinned code gives for this
// specific pattern / term set", so that the search continues past the known finding while any *different* wrong behaviour is reported.
#pragma once
#include <cstdint>
#include <set>
#include <vector>
#include "ref_regex.hpp"

namespace bm
{
constexpr uint16_t NONE = 0xFFFF;
struct St
{
    bool start = false, end = false, unreachable = false;
    uint16_t cr[4] = {NONE, NONE, NONE, NONE};
    uint16_t tr[256];
    std::set<uint32_t> merged_from;
    St() { for (auto& t : tr) t = NONE; }
};
struct Slice { uint32_t start, n; };

struct Builder
{
    std::vector<St> sm;
    size_t cap;
    bool overflow = false;
    explicit Builder(size_t cap = 1u << 20) : cap(cap) {}
    void push(const St& s) { if (sm.size() >= cap) { overflow = true; return; } sm.push_back(s); }

    Slice primary_subset(const rx::CSet& cs)
    {
        uint32_t old = uint32_t(sm.size());
        St a; a.start = true;
        for (int i = 0; i < 256; ++i) if (cs[size_t(i)]) a.tr[i] = uint16_t(old + 1);
        push(a);
        St b; b.end = true; push(b);
        return Slice{old, 2};
    }
    Slice primary_char(unsigned char c) { rx::CSet cs; cs.set(c); return primary_subset(cs); }

    void mark_end_state(St& s, uint16_t idx)
    {
        if (!s.end) return;
        for (int i = 0; i < 4; ++i) if (s.cr[i] == NONE) { s.cr[i] = idx; break; }
    }
    void mark_end_states(Slice s, uint16_t idx) { for (uint32_t i = s.start; i < s.start + s.n && i < sm.size(); ++i) mark_end_state(sm[i], idx); }

    void merge(uint32_t to, uint32_t from, bool keep_end = false, bool mark_unreach = false)
    {
        if (to == from) return;
        if (to >= sm.size() || from >= sm.size()) return;
        if (sm[to].merged_from.count(from)) return;
        sm[to].merged_from.insert(from);
        sm[from].start = false;
        if (keep_end) sm[to].end = sm[to].end || sm[from].end; else sm[to].end = sm[from].end;
        sm[from].unreachable = mark_unreach;
        for (int i = 0; i < 256; ++i)
        {
            uint16_t tf = sm[from].tr[i];
            if (tf == NONE) continue;
            uint16_t tt = sm[to].tr[i];
            if (tt == NONE) { sm[to].tr[i] = tf; if (tf < sm.size()) sm[tf].unreachable = false; }
            else merge(tt, tf, keep_end, mark_unreach);
        }
        for (int j = 0; j < 4; ++j)
        {
            uint16_t t = sm[from].cr[j];
            if (t != NONE) mark_end_state(sm[to], t); else break;
        }
    }
    Slice star(Slice s)
    {
        uint32_t b = s.start; sm[b].end = true;
        for (uint32_t i = s.start; i < s.start + s.n; ++i) if (sm[i].end) merge(i, b);
        return s;
    }
    Slice plus(Slice s)
    {
        uint32_t b = s.start;
        for (uint32_t i = s.start; i < s.start + s.n; ++i) if (sm[i].end) merge(i, b, true);
        return s;
    }
    Slice opt(Slice s) { sm[s.start].end = true; return s; }
    Slice cat(Slice s1, Slice s2)
    {
        uint32_t b = s2.start;
        for (uint32_t i = s1.start; i < s1.start + s1.n; ++i) if (sm[i].end) merge(i, b, false, true);
        return Slice{s1.start, s1.n + s2.n};
    }
    Slice alt(Slice s1, Slice s2) { merge(s1.start, s2.start, true, true); return Slice{s1.start, s1.n + s2.n}; }
    Slice rep(Slice s, uint32_t n)
    {
        if (n == 0)
        {
            for (uint32_t j = s.start; j < s.start + s.n; ++j)
            {
                if (sm[j].start) { for (auto& t : sm[j].tr) t = NONE; sm[j].end = true; sm[j].start = false; }
                else sm[j].unreachable = true;
            }
            return s;
        }
        for (uint32_t i = 0; i + 1 < n; ++i)
            for (uint32_t j = s.start; j < s.start + s.n; ++j)
            {
                St c = sm[j];
                for (auto& t : c.tr) if (t != NONE) t = uint16_t(t + uint16_t(s.n * (i + 1)));
                push(c);
                if (overflow) return s;
            }
        Slice whole = s;
        for (uint32_t i = 0; i + 1 < n; ++i) { cat(whole, Slice{whole.start + whole.n, s.n}); whole = Slice{whole.start, whole.n + s.n}; }
        return whole;
    }
    // build from the reference AST
    Slice build(const rx::Ast& a, int i)
    {
        const rx::Node& n = a.nodes[size_t(i)];
        switch (n.k)
        {
        case rx::Node::SET: return primary_subset(n.set);
        case rx::Node::CAT: { Slice x = build(a, n.a); if (overflow) return x; Slice y = build(a, n.b); if (overflow) return x; return cat(x, y); }
        case rx::Node::ALT: { Slice x = build(a, n.a); if (overflow) return x; Slice y = build(a, n.b); if (overflow) return x; return alt(x, y); }
        case rx::Node::STAR: { Slice x = build(a, n.a); if (overflow) return x; return star(x); }
        case rx::Node::PLUS: { Slice x = build(a, n.a); if (overflow) return x; return plus(x); }
        case rx::Node::OPT: { Slice x = build(a, n.a); if (overflow) return x; return opt(x); }
        case rx::Node::REP: { Slice x = build(a, n.a); if (overflow) return x; return rep(x, uint32_t(n.n)); }
        default: return Slice{0, 0};
        }
    }
    void to_dfa(rx::Dfa& d) const
    {
        d.tr.assign(sm.size(), {}); d.label.assign(sm.size(), -1);
        for (size_t i = 0; i < sm.size(); ++i)
        {
            for (int c = 0; c < 256; ++c) d.tr[i][size_t(c)] = sm[i].tr[c] == NONE ? -1 : int(sm[i].tr[c]);
            d.label[i] = sm[i].cr[0] == NONE ? -1 : int(sm[i].cr[0]);
        }
    }
};
}

// User buffer types accepted by ctpg's parse(): an exactly-sized heap block with the cstring_buffer layout,
// and a checked buffer whose iterator asserts on every step outside [begin, end] and records the dereference high-water mark.
#pragma once
#include <cstring>
#include <memory>
#include <stdexcept>
#include <string>
#include <string_view>

namespace vb
{
// same contract as ctpg::buffers::cstring_buffer<N>: N = len + 1 bytes, NUL terminated, end() = data + len.
// The block is allocated with exactly N bytes so that ASan sees any read beyond the terminator.
struct HeapCBuffer
{
    std::unique_ptr<char[]> d; size_t len;
    explicit HeapCBuffer(const std::string& s) : d(new char[s.size() + 1]), len(s.size()) { std::memcpy(d.get(), s.data(), s.size()); d[s.size()] = 0; }
    struct iterator
    {
        const char* ptr;
        char operator*() const { return *ptr; }
        iterator& operator++() { ++ptr; return *this; }
        iterator operator++(int) { iterator i(*this); ++ptr; return i; }
        bool operator==(const iterator& o) const { return ptr == o.ptr; }
        bool operator!=(const iterator& o) const { return ptr != o.ptr; }
        iterator& operator+=(size_t n) { ptr += n; return *this; }
        iterator operator+(size_t n) const { iterator i(*this); i.ptr += n; return i; }
    };
    iterator begin() const { return iterator{d.get()}; }
    iterator end() const { return iterator{d.get() + len}; }
    std::string_view get_view(iterator a, iterator b) const { return std::string_view(a.ptr, size_t(b.ptr - a.ptr)); }
};

struct checked_buffer_error : std::runtime_error { using std::runtime_error::runtime_error; };

// index based; any iterator value outside [0, len] or any dereference at len throws
struct CheckedBuffer
{
    std::string s;
    mutable size_t max_deref = 0; mutable bool any_deref = false;
    mutable size_t derefs = 0;
    explicit CheckedBuffer(const std::string& s) : s(s) {}
    struct iterator
    {
        const CheckedBuffer* b; long idx;
        void chk() const { if (idx < 0 || size_t(idx) > b->s.size()) throw checked_buffer_error("iterator moved outside [begin, end]: index " + std::to_string(idx) + " of " + std::to_string(b->s.size())); }
        char operator*() const
        {
            if (idx < 0 || size_t(idx) >= b->s.size()) throw checked_buffer_error("dereference outside the buffer: index " + std::to_string(idx) + " of " + std::to_string(b->s.size()));
            b->any_deref = true; if (size_t(idx) > b->max_deref) b->max_deref = size_t(idx); ++b->derefs;
            return b->s[size_t(idx)];
        }
        iterator& operator++() { ++idx; chk(); return *this; }
        iterator operator++(int) { iterator i(*this); ++idx; chk(); return i; }
        bool operator==(const iterator& o) const { return idx == o.idx; }
        bool operator!=(const iterator& o) const { return idx != o.idx; }
        iterator& operator+=(size_t n) { idx += long(n); chk(); return *this; }
        iterator operator+(size_t n) const { iterator i(*this); i.idx += long(n); i.chk(); return i; }
    };
    iterator begin() const { return iterator{this, 0}; }
    iterator end() const { return iterator{this, long(s.size())}; }
    std::string_view get_view(iterator a, iterator e) const { if (a.idx > e.idx) throw checked_buffer_error("get_view with start after end"); return std::string_view(s.data() + a.idx, size_t(e.idx - a.idx)); }
};
}

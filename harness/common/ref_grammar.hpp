// R1: reference grammar machinery written from the textbook; shares no code or layout with ctpg.
//   canonical LR(1) construction, conflict classification, README precedence resolution,
//   LR driver (accept/reject, reduce sequence, tree value, error position, stack depth, README recovery model),
//   Earley recogniser with prefix viability, productive/reachable/nullable/FIRST analysis, sentence generation.
#pragma once
#include <algorithm>
#include <cstdint>
#include <deque>
#include <map>
#include <set>
#include <string>
#include <vector>
#include "json.hpp"
#include "engine.hpp"

namespace ref
{
struct Sym
{
    bool term = true; int idx = 0;
    bool operator==(const Sym& o) const { return term == o.term && idx == o.idx; }
    bool operator<(const Sym& o) const { return term != o.term ? term < o.term : idx < o.idx; }
};
enum Assoc { NONE = 0, LTOR = 1, RTOL = 2 };

struct Rule
{
    int lhs = 0;
    std::vector<Sym> rhs;
    bool has_prec = false; int prec = 0;   // explicit [n]
    int slot = -1;                          // template rule slot (engines using injection)
    bool passthrough = false;               // rule without functor: the left side is constructed from the single right-side value
};

struct Grammar
{
    int nT = 0;     // user terminals 0..nT-1 ; EOF = nT ; ERR = nT+1
    int nN = 0;
    int root = 0;
    std::vector<Rule> rules;                // source order
    std::vector<int> tprec;                 // size nT
    std::vector<Assoc> tassoc;              // size nT
    int eof() const { return nT; }
    int err() const { return nT + 1; }
    int term_count() const { return nT + 2; }
    int prec_of_term(int t) const { return t < nT ? tprec[t] : 0; }
    Assoc assoc_of_term(int t) const { return t < nT ? tassoc[t] : NONE; }
    int last_term(const Rule& r) const { for (int i = int(r.rhs.size()) - 1; i >= 0; --i) if (r.rhs[i].term) return r.rhs[i].idx; return -1; }
    // README / property C05: explicit [n] when given, otherwise precedence of the last term, default 0
    int rule_prec(const Rule& r) const { if (r.has_prec) return r.prec; int lt = last_term(r); return lt >= 0 ? prec_of_term(lt) : 0; }
    Assoc rule_assoc(const Rule& r) const { int lt = last_term(r); return lt >= 0 ? assoc_of_term(lt) : NONE; }
    bool uses_error() const { for (auto& r : rules) for (auto& s : r.rhs) if (s.term && s.idx == err()) return true; return false; }
    std::string tname(int t) const { if (t == eof()) return "<eof>"; if (t == err()) return "<error_recovery_token>"; return std::string(1, char('a' + t)); }
    std::string nname(int n) const { return "N" + std::to_string(n); }
    std::string sname(const Sym& s) const { return s.term ? tname(s.idx) : nname(s.idx); }
    std::string show() const
    {
        std::string o;
        for (size_t i = 0; i < rules.size(); ++i)
        {
            auto& r = rules[i];
            o += nname(r.lhs) + "(";
            for (size_t k = 0; k < r.rhs.size(); ++k) { if (k) o += ","; o += r.rhs[k].term && r.rhs[k].idx == err() ? "error" : sname(r.rhs[k]); }
            o += ")";
            if (r.has_prec) o += "[" + std::to_string(r.prec) + "]";
            o += "; ";
        }
        o += "root=" + nname(root);
        bool anyp = false; for (int t = 0; t < nT; ++t) if (tprec[t] || tassoc[t]) anyp = true;
        if (anyp) { o += " terms:"; for (int t = 0; t < nT; ++t) { o += " " + tname(t) + "/" + std::to_string(tprec[t]) + "/" + (tassoc[t] == LTOR ? "ltor" : tassoc[t] == RTOL ? "rtol" : "none"); } }
        return o;
    }
    uint64_t hash() const
    {
        uint64_t h = eng::hcomb(nT, nN); h = eng::hcomb(h, root);
        for (auto& r : rules) { h = eng::hcomb(h, 1000 + r.lhs); for (auto& s : r.rhs) h = eng::hcomb(h, s.term ? s.idx : 100 + s.idx); h = eng::hcomb(h, r.has_prec ? 7 + r.prec : 3); }
        for (int t = 0; t < nT; ++t) { h = eng::hcomb(h, tprec[t]); h = eng::hcomb(h, tassoc[t]); }
        return h;
    }
};

inline vj::Value to_json(const Grammar& g)
{
    vj::Value o = vj::Value::object();
    o.set("nT", g.nT); o.set("nN", g.nN); o.set("root", g.root);
    vj::Value ts = vj::Value::array();
    for (int t = 0; t < g.nT; ++t) { vj::Value x = vj::Value::object(); x.set("prec", g.tprec[t]); x.set("assoc", int(g.tassoc[t])); ts.push(x); }
    o.set("terms", ts);
    vj::Value rs = vj::Value::array();
    for (auto& r : g.rules)
    {
        vj::Value x = vj::Value::object();
        x.set("lhs", r.lhs);
        vj::Value rhs = vj::Value::array();
        for (auto& s : r.rhs) { vj::Value y = vj::Value::object(); if (s.term) y.set("t", s.idx); else y.set("n", s.idx); rhs.push(y); }
        x.set("rhs", rhs);
        if (r.has_prec) x.set("prec", r.prec);
        if (r.slot >= 0) x.set("slot", r.slot);
        if (r.passthrough) x.set("default_functor", true);
        rs.push(x);
    }
    o.set("rules", rs);
    o.set("text", g.show());
    return o;
}
inline Grammar grammar_from_json(const vj::Value& o)
{
    Grammar g; g.nT = int(o.at("nT").as_int()); g.nN = int(o.at("nN").as_int()); g.root = int(o.at("root").as_int());
    g.tprec.assign(g.nT, 0); g.tassoc.assign(g.nT, NONE);
    for (size_t t = 0; t < o.at("terms").size() && int(t) < g.nT; ++t) { g.tprec[t] = int(o.at("terms").at(t).at("prec").as_int()); g.tassoc[t] = Assoc(o.at("terms").at(t).at("assoc").as_int()); }
    for (size_t i = 0; i < o.at("rules").size(); ++i)
    {
        const vj::Value& x = o.at("rules").at(i);
        Rule r; r.lhs = int(x.at("lhs").as_int());
        for (size_t k = 0; k < x.at("rhs").size(); ++k)
        {
            const vj::Value& y = x.at("rhs").at(k);
            if (y.has("t")) r.rhs.push_back(Sym{true, int(y.at("t").as_int())}); else r.rhs.push_back(Sym{false, int(y.at("n").as_int())});
        }
        if (x.has("prec")) { r.has_prec = true; r.prec = int(x.at("prec").as_int()); }
        r.slot = x.has("slot") ? int(x.at("slot").as_int()) : -1;
        r.passthrough = x.at("default_functor").as_bool(false);
        g.rules.push_back(r);
    }
    return g;
}

using TermSet = uint32_t;   // term_count <= 32

struct Analysis
{
    std::vector<bool> nullable, productive, reachable;
    std::vector<TermSet> first;
    std::vector<int> minheight;     // minimal derivation height per nonterminal (INT_MAX/2 if unproductive)
    std::vector<int> rule_height;
    bool all_productive = true, all_reachable = true;
    bool left_rec = false, right_rec = false, has_eps = false, has_unit = false, mutual_rec = false, hidden_left_rec = false;
};

inline Analysis analyse(const Grammar& g)
{
    Analysis a; int N = g.nN;
    a.nullable.assign(N, false); a.productive.assign(N, false); a.reachable.assign(N, false); a.first.assign(N, 0);
    a.minheight.assign(N, 1 << 28); a.rule_height.assign(g.rules.size(), 1 << 28);
    bool ch = true;
    while (ch)
    {
        ch = false;
        for (size_t ri = 0; ri < g.rules.size(); ++ri)
        {
            auto& r = g.rules[ri];
            bool alln = true, allp = true; int h = 0;
            for (auto& s : r.rhs)
            {
                if (s.term) { alln = false; if (s.idx == g.err()) { /* error symbol derives no input: not productive for sentence generation */ allp = false; } }
                else { if (!a.nullable[s.idx]) alln = false; if (!a.productive[s.idx]) allp = false; else h = std::max(h, a.minheight[s.idx]); }
            }
            if (alln && !a.nullable[r.lhs]) { a.nullable[r.lhs] = true; ch = true; }
            if (allp)
            {
                if (!a.productive[r.lhs]) { a.productive[r.lhs] = true; ch = true; }
                if (h + 1 < a.rule_height[ri]) { a.rule_height[ri] = h + 1; ch = true; }
                if (h + 1 < a.minheight[r.lhs]) { a.minheight[r.lhs] = h + 1; ch = true; }
            }
            TermSet f = a.first[r.lhs];
            for (auto& s : r.rhs)
            {
                if (s.term) { f |= (1u << s.idx); break; }
                f |= a.first[s.idx];
                if (!a.nullable[s.idx]) break;
            }
            if (f != a.first[r.lhs]) { a.first[r.lhs] = f; ch = true; }
        }
    }
    // reachability
    std::vector<int> st{g.root}; a.reachable[g.root] = true;
    while (!st.empty())
    {
        int n = st.back(); st.pop_back();
        for (auto& r : g.rules) if (r.lhs == n) for (auto& s : r.rhs) if (!s.term && !a.reachable[s.idx]) { a.reachable[s.idx] = true; st.push_back(s.idx); }
    }
    for (int n = 0; n < N; ++n) { if (a.reachable[n] && !a.productive[n]) a.all_productive = false; if (!a.reachable[n]) a.all_reachable = false; }
    // recursion kinds over reachable rules
    // left-dependency graph: A -> B if A ::= alpha B beta with alpha nullable
    std::vector<std::vector<bool>> L(N, std::vector<bool>(N, false)), R(N, std::vector<bool>(N, false));
    for (auto& r : g.rules)
    {
        if (!a.reachable[r.lhs]) continue;
        if (r.rhs.empty()) a.has_eps = true;
        if (r.rhs.size() == 1 && !r.rhs[0].term) a.has_unit = true;
        for (size_t i = 0; i < r.rhs.size(); ++i)
        {
            auto& s = r.rhs[i];
            if (s.term) break;
            L[r.lhs][s.idx] = true;
            if (i > 0 && s.idx == r.lhs) a.hidden_left_rec = true;
            if (!a.nullable[s.idx]) break;
        }
        for (int i = int(r.rhs.size()) - 1; i >= 0; --i)
        {
            auto& s = r.rhs[i];
            if (s.term) break;
            R[r.lhs][s.idx] = true;
            if (!a.nullable[s.idx]) break;
        }
    }
    auto closure = [&](std::vector<std::vector<bool>>& M) { for (int k = 0; k < N; ++k) for (int i = 0; i < N; ++i) if (M[i][k]) for (int j = 0; j < N; ++j) if (M[k][j]) M[i][j] = true; };
    auto Ld = L; closure(L); closure(R);
    for (int n = 0; n < N; ++n) { if (L[n][n]) { a.left_rec = true; if (!Ld[n][n]) a.mutual_rec = true; } if (R[n][n]) a.right_rec = true; }
    return a;
}

// ---------------------------------------------------------------------------------------------
// canonical LR(1)
struct Item
{
    int rule, dot, la;
    bool operator<(const Item& o) const { return rule != o.rule ? rule < o.rule : dot != o.dot ? dot < o.dot : la < o.la; }
    bool operator==(const Item& o) const { return rule == o.rule && dot == o.dot && la == o.la; }
};

struct Cell
{
    int shift = -1;                 // target state
    std::vector<int> reduces;       // source rule numbers
    bool accept = false;
    // resolved action
    enum K { ERR, SHIFT, REDUCE, ACCEPT } k = ERR; int arg = -1;
    bool sr = false, rr = false; bool prefer_reduce = false;
};

struct Table
{
    const Grammar* g = nullptr;
    std::vector<std::set<Item>> states;
    std::vector<std::vector<Cell>> cells;   // [state][term]
    std::vector<std::vector<int>> go;       // [state][nterm]
    bool has_sr = false, has_rr = false;
    size_t max_items = 0;
    int root_rule() const { return int(g->rules.size()); }
    bool conflict_free() const { return !has_sr && !has_rr; }
};

inline const std::vector<Sym>& rhs_of(const Grammar& g, int rule, std::vector<Sym>& rootrhs)
{
    if (rule == int(g.rules.size())) { rootrhs = {Sym{false, g.root}}; return rootrhs; }
    return g.rules[rule].rhs;
}

inline Table build_lr1(const Grammar& g, const Analysis& an, size_t state_limit = 4000)
{
    Table t; t.g = &g;
    int RR = int(g.rules.size());
    std::vector<Sym> rootrhs{Sym{false, g.root}};
    auto rhs = [&](int r) -> const std::vector<Sym>& { return r == RR ? rootrhs : g.rules[r].rhs; };
    std::vector<std::vector<int>> by_lhs(g.nN);
    for (int r = 0; r < RR; ++r) by_lhs[g.rules[r].lhs].push_back(r);

    auto closure = [&](std::set<Item>& I)
    {
        std::vector<Item> work(I.begin(), I.end());
        while (!work.empty())
        {
            Item it = work.back(); work.pop_back();
            auto& rs = rhs(it.rule);
            if (it.dot >= int(rs.size())) continue;
            Sym B = rs[it.dot];
            if (B.term) continue;
            // FIRST(beta la)
            TermSet f = 0; bool alln = true;
            for (size_t k = it.dot + 1; k < rs.size(); ++k)
            {
                if (rs[k].term) { f |= 1u << rs[k].idx; alln = false; break; }
                f |= an.first[rs[k].idx];
                if (!an.nullable[rs[k].idx]) { alln = false; break; }
            }
            if (alln) f |= 1u << it.la;
            for (int r : by_lhs[B.idx])
                for (int la = 0; la < g.term_count(); ++la)
                    if (f & (1u << la))
                    {
                        Item ni{r, 0, la};
                        if (I.insert(ni).second) work.push_back(ni);
                    }
        }
    };

    std::map<std::set<Item>, int> index;
    std::set<Item> s0{Item{RR, 0, g.eof()}};
    closure(s0);
    index[s0] = 0; t.states.push_back(s0);
    for (size_t si = 0; si < t.states.size(); ++si)
    {
        if (t.states.size() > state_limit) break;
        std::set<Item> I = t.states[si];
        t.max_items = std::max(t.max_items, I.size());
        std::map<Sym, std::set<Item>> gotos;
        std::vector<Cell> row(g.term_count());
        for (auto& it : I)
        {
            auto& rs = rhs(it.rule);
            if (it.dot < int(rs.size())) gotos[rs[it.dot]].insert(Item{it.rule, it.dot + 1, it.la});
            else
            {
                if (it.rule == RR) row[it.la].accept = true;
                else row[it.la].reduces.push_back(it.rule);
            }
        }
        std::vector<int> gorow(g.nN, -1);
        for (auto& kv : gotos)
        {
            std::set<Item> J = kv.second; closure(J);
            auto f = index.find(J); int j;
            if (f == index.end()) { j = int(t.states.size()); index[J] = j; t.states.push_back(J); }
            else j = f->second;
            if (kv.first.term) row[kv.first.idx].shift = j; else gorow[kv.first.idx] = j;
        }
        for (auto& c : row) { std::sort(c.reduces.begin(), c.reduces.end()); c.reduces.erase(std::unique(c.reduces.begin(), c.reduces.end()), c.reduces.end()); }
        t.cells.push_back(row); t.go.push_back(gorow);
    }
    // classify + resolve
    for (size_t si = 0; si < t.cells.size(); ++si)
        for (int la = 0; la < g.term_count(); ++la)
        {
            Cell& c = t.cells[si][la];
            if (c.accept) { c.k = Cell::ACCEPT; if (!c.reduces.empty() || c.shift >= 0) { c.rr = true; t.has_rr = true; } continue; }
            if (c.reduces.size() > 1) { c.rr = true; t.has_rr = true; c.k = Cell::REDUCE; c.arg = c.reduces[0]; continue; }
            if (c.reduces.size() == 1 && c.shift >= 0)
            {
                c.sr = true; t.has_sr = true;
                const Rule& r = g.rules[c.reduces[0]];
                int rp = g.rule_prec(r), tp = g.prec_of_term(la);
                bool red = rp > tp || (rp == tp && g.rule_assoc(r) == LTOR);
                c.prefer_reduce = red;
                if (red) { c.k = Cell::REDUCE; c.arg = c.reduces[0]; } else { c.k = Cell::SHIFT; c.arg = c.shift; }
                continue;
            }
            if (c.reduces.size() == 1) { c.k = Cell::REDUCE; c.arg = c.reduces[0]; }
            else if (c.shift >= 0) { c.k = Cell::SHIFT; c.arg = c.shift; }
        }
    return t;
}

// ---------------------------------------------------------------------------------------------
// value hashing shared with the harness functors
inline uint64_t term_value_hash(int term, const std::string& lexeme) { return eng::hcomb(eng::hcomb(0x7e57, uint64_t(term)), eng::hstr(lexeme)); }
inline uint64_t rule_value_hash(int slot_or_rule, const std::vector<uint64_t>& kids)
{
    uint64_t h = eng::hcomb(0xabcd, uint64_t(slot_or_rule));
    for (auto k : kids) h = eng::hcomb(h, k);
    return h;
}
constexpr uint64_t ERROR_VALUE_HASH = 0xe44044ULL;

struct Token { int term; std::string lexeme; int line = 1, col = 1; };

struct RunResult
{
    bool accepted = false;
    uint64_t value = 0;
    std::vector<int> reduces;              // source rule numbers in order
    std::vector<int> actions_terms;        // terminals on which a shift happened
    int error_token = -1;                  // index into tokens (tokens.size() = eof) of the first syntax error; -1 none
    std::vector<int> error_tokens;         // all syntax errors (recovery)
    size_t max_depth = 0;
    size_t internal_nodes = 0;
    bool hit_rr = false;
    bool hit_sr = false;                   // passed through a resolved S/R cell
    std::set<std::pair<int,int>> cells_used;
    // every rule-functor call as (rule, value) in call order (includes nodes later discarded by recovery)
    std::vector<std::pair<int, uint64_t>> calls;
    std::vector<std::vector<int>> call_args;   // per call: token index of each argument (-1 nonterminal value, -2 error token)
    int max_examined = -1;                     // highest token index the driver looked at (as lookahead or shifted)
    bool looped = false;                       // the (ambiguous) grammar reduces empty rules forever on this input
    bool lex_error_reached = false;            // the parser asked for a term where no term matches
    std::vector<int> shifted_tokens;           // token indices shifted
    std::vector<int> discarded_tokens;         // token indices discarded by recovery
    bool recovered = false; int max_pop = 0; bool fail_empty_stack = false, fail_eof_discard = false;
    std::vector<std::string> rec_labels;
};

// LR driver on the reference table with the README recovery model. tokens exclude eof.
// value_of_rule(rule) -> id used in hashing (template slot for injection engines).
inline RunResult run_lr(const Table& t, const std::vector<Token>& toks, bool track_cells = false, bool ends_with_lex_error = false)
{
    const Grammar& g = *t.g;
    RunResult r;
    std::vector<int> st{0};
    std::vector<uint64_t> vals;   // one per state above the bottom
    std::vector<int> vtok;        // token index of each value (-1 nonterminal, -2 error)
    size_t pos = 0;
    auto cur = [&]() { if (pos < toks.size()) { if (int(pos) > r.max_examined) r.max_examined = int(pos); return toks[pos].term; } return g.eof(); };
    auto do_reduce = [&](int rule)
    {
        const Rule& ru = g.rules[rule];
        size_t n = ru.rhs.size();
        std::vector<uint64_t> kids(vals.end() - n, vals.end());
        r.call_args.push_back(std::vector<int>(vtok.end() - n, vtok.end()));
        vals.resize(vals.size() - n); st.resize(st.size() - n); vtok.resize(vtok.size() - n);
        uint64_t v = (ru.passthrough && n == 1) ? kids[0] : rule_value_hash(ru.slot >= 0 ? ru.slot : rule, kids);
        r.reduces.push_back(rule); r.calls.push_back({rule, v}); r.internal_nodes++;
        int to = t.go[st.back()][ru.lhs];
        st.push_back(to); vals.push_back(v); vtok.push_back(-1);
        r.max_depth = std::max(r.max_depth, st.size());
    };
    size_t guard = 0;
    while (true)
    {
        if (++guard > 50000 + 200 * toks.size()) { r.accepted = false; r.looped = true; return r; }
        if (ends_with_lex_error && pos >= toks.size()) { r.lex_error_reached = true; return r; }
        int a = cur();
        const Cell& c = t.cells[st.back()][a];
        if (track_cells) r.cells_used.insert({st.back(), a});
        if (c.rr) r.hit_rr = true;
        if (c.sr) r.hit_sr = true;
        if (c.k == Cell::ACCEPT) { r.accepted = true; r.value = vals.empty() ? 0 : vals.front(); return r; }
        if (c.k == Cell::SHIFT)
        {
            st.push_back(c.arg); vals.push_back(term_value_hash(a, toks[pos].lexeme)); vtok.push_back(int(pos)); r.shifted_tokens.push_back(int(pos)); ++pos;
            r.max_depth = std::max(r.max_depth, st.size());
            continue;
        }
        if (c.k == Cell::REDUCE) { do_reduce(c.arg); continue; }
        // syntax error
        if (r.error_token < 0) r.error_token = int(pos);
        r.error_tokens.push_back(int(pos));
        int E = g.err();
        int popped = 0;
        while (!st.empty() && t.cells[st.back()][E].k == Cell::ERR)
        {
            st.pop_back(); if (!vals.empty()) { vals.pop_back(); vtok.pop_back(); } ++popped;
        }
        if (st.empty()) { r.fail_empty_stack = true; return r; }
        r.recovered = true; r.max_pop = std::max(r.max_pop, popped);
        // present the error token to the LR algorithm: reductions on it are allowed until it is shifted
        bool shifted = false;
        while (!shifted)
        {
            if (++guard > 50000 + 200 * toks.size()) { r.looped = true; return r; }
            const Cell& ce = t.cells[st.back()][E];
            if (ce.k == Cell::REDUCE) { do_reduce(ce.arg); continue; }
            if (ce.k == Cell::SHIFT) { st.push_back(ce.arg); vals.push_back(ERROR_VALUE_HASH); vtok.push_back(-2); shifted = true; r.max_depth = std::max(r.max_depth, st.size()); continue; }
            // after a reduction the new top state might not accept the error token: pop further (README: "until the state accepting ... is encountered")
            while (!st.empty() && t.cells[st.back()][E].k == Cell::ERR) { st.pop_back(); if (!vals.empty()) { vals.pop_back(); vtok.pop_back(); } }
            if (st.empty()) { r.fail_empty_stack = true; return r; }
        }
        // discard terms until one the parser can act on
        while (true)
        {
            if (ends_with_lex_error && pos >= toks.size()) { r.lex_error_reached = true; return r; }
            int b = cur();
            if (t.cells[st.back()][b].k != Cell::ERR) break;
            if (b == g.eof()) { r.fail_eof_discard = true; return r; }
            r.discarded_tokens.push_back(int(pos));
            ++pos;
        }
    }
}

// ---------------------------------------------------------------------------------------------
// Earley recogniser (second opinion): accepts(tokens) and longest viable prefix length.
struct Earley
{
    const Grammar& g; const Analysis& an;
    Earley(const Grammar& g, const Analysis& an) : g(g), an(an) {}
    struct EI { int rule, dot, origin; bool operator<(const EI& o) const { return rule != o.rule ? rule < o.rule : dot != o.dot ? dot < o.dot : origin < o.origin; } };
    // returns {accepted, number of tokens scanned successfully before the set became empty (== n if all scanned)}
    std::pair<bool, size_t> run(const std::vector<int>& toks) const
    {
        int RR = int(g.rules.size());
        std::vector<Sym> rootrhs{Sym{false, g.root}};
        auto rhs = [&](int r) -> const std::vector<Sym>& { return r == RR ? rootrhs : g.rules[r].rhs; };
        auto lhs = [&](int r) { return r == RR ? -1 : g.rules[r].lhs; };
        size_t n = toks.size();
        std::vector<std::set<EI>> S(n + 1);
        S[0].insert(EI{RR, 0, 0});
        size_t scanned = 0;
        for (size_t i = 0; i <= n; ++i)
        {
            std::vector<EI> work(S[i].begin(), S[i].end());
            while (!work.empty())
            {
                EI it = work.back(); work.pop_back();
                auto& rs = rhs(it.rule);
                if (it.dot < int(rs.size()))
                {
                    Sym s = rs[it.dot];
                    if (!s.term)
                    {
                        for (int r = 0; r < RR; ++r) if (g.rules[r].lhs == s.idx) { EI ni{r, 0, int(i)}; if (S[i].insert(ni).second) work.push_back(ni); }
                        if (an.nullable[s.idx]) { EI ni{it.rule, it.dot + 1, it.origin}; if (S[i].insert(ni).second) work.push_back(ni); }
                    }
                }
                else
                {
                    int A = lhs(it.rule);
                    if (A < 0) continue;
                    std::vector<EI> parents(S[it.origin].begin(), S[it.origin].end());
                    for (auto& p : parents)
                    {
                        auto& prs = rhs(p.rule);
                        if (p.dot < int(prs.size()) && !prs[p.dot].term && prs[p.dot].idx == A)
                        { EI ni{p.rule, p.dot + 1, p.origin}; if (S[i].insert(ni).second) work.push_back(ni); }
                    }
                }
            }
            if (i == n) break;
            for (auto& it : S[i])
            {
                auto& rs = rhs(it.rule);
                if (it.dot < int(rs.size()) && rs[it.dot].term && rs[it.dot].idx == toks[i]) S[i + 1].insert(EI{it.rule, it.dot + 1, it.origin});
            }
            if (S[i + 1].empty()) return {false, scanned};
            scanned = i + 1;
        }
        bool acc = S[n].count(EI{RR, 1, 0}) > 0;
        return {acc, scanned};
    }
};

// ---------------------------------------------------------------------------------------------
// sentence generation (random derivation bounded by min-height tables)
inline void derive(const Grammar& g, const Analysis& an, int nt, int depth, eng::Rng& rng, std::vector<int>& out, size_t maxlen)
{
    std::vector<int> cands, minc;
    for (size_t r = 0; r < g.rules.size(); ++r)
        if (g.rules[r].lhs == nt && an.rule_height[r] < (1 << 28)) { cands.push_back(int(r)); }
    if (cands.empty()) return;
    int pick;
    if (depth <= 0 || out.size() >= maxlen)
    {
        int best = 1 << 28; for (int r : cands) best = std::min(best, an.rule_height[r]);
        for (int r : cands) if (an.rule_height[r] == best) minc.push_back(r);
        pick = minc[rng.below(uint32_t(minc.size()))];
    }
    else pick = cands[rng.below(uint32_t(cands.size()))];
    for (auto& s : g.rules[pick].rhs)
    {
        if (s.term) out.push_back(s.idx);
        else derive(g, an, s.idx, depth - 1, rng, out, maxlen);
    }
}
}

// The only user of the friend hook (H1) and the definition of the bounds monitor callback (H2).
#pragma once
#include <optional>
#ifndef CTPG_VERIF
#error "engines must be built with -DCTPG_VERIF"
#endif
#include <ctpg/ctpg.hpp>
#include <memory>
#include <stdexcept>
#include <string>
#include <vector>
#include "ref_grammar.hpp"

namespace ctpg_verif
{
struct bounds_violation : std::runtime_error
{
    explicit bounds_violation(const char* w) : std::runtime_error(std::string("ctpg_verif bounds monitor: ") + w) {}
};
inline unsigned long& bounds_hits() { static unsigned long n = 0; return n; }
inline const char*& bounds_last() { static const char* w = ""; return w; }
void bounds_fail(const char* where)
{
    ++bounds_hits(); bounds_last() = where;
    throw bounds_violation(where);
}

// neutral dump of the real parse table
struct TableDump
{
    struct Entry { int kind; int arg; bool sr; };   // kind: 0 error 1 success 2 shift 3 shift_error 4 reduce 5 rr
    size_t state_count = 0, term_count = 0, nterm_count = 0;
    std::vector<std::vector<Entry>> rows;           // [state][symbol]  (nterms first, then terms)
    std::vector<int> rule_of_info;                  // rule_info index -> source rule index
};

struct access
{
    template<class P> static constexpr size_t term_count() { return P::term_count; }
    template<class P> static constexpr size_t nterm_count() { return P::nterm_count; }
    template<class P> static constexpr size_t rule_count() { return P::rule_count; }
    template<class P> static constexpr size_t state_cap() { return P::state_count_cap; }
    template<class P> static constexpr size_t sit_cap() { return P::max_sit_count_per_state_cap; }
    template<class P> static constexpr size_t max_rule_elements() { return P::max_rule_element_count; }
    template<class P> static constexpr size_t lexer_dfa_size() { return P::lexer_dfa_size; }
    template<class P> static constexpr size_t empty_rules_count() { return P::empty_rules_count; }
    template<class P> static size_t state_count(const P& p) { return p.state_count; }
    template<class P> static auto& lexer_sm(P& p) { return p.lexer_sm; }
    template<class P> static const auto& lexer_sm(const P& p) { return p.lexer_sm; }
    template<class E> static const auto& expr_sm(const E& e) { return e.sm; }
    template<class P> static size_t sizeof_analyzer() { return sizeof(typename P::state_analyzer); }

    // Re-run the real grammar analysis on an injected grammar.
    //   slot_arity[s] : arity of template rule s ; unused slots are parked on nonterminal `park` (unreachable)
    //   dsl_prec(has,prec) : the value the DSL's rule object reports for the explicit precedence
    template<class P, class DslPrec>
    static void inject(P& p, const ref::Grammar& g, int park, const std::vector<std::vector<int>>& slot_pattern, DslPrec dsl_prec)
    {
        inject(p, g, park, slot_pattern, dsl_prec, [](int, int prec, int assoc) { return std::pair<int, int>(prec, assoc); });
    }
    template<class F> static auto rebuild_term(const ctpg::typed_term<ctpg::char_term, F>& o, int prec, ctpg::associativity a) { return ctpg::typed_term(ctpg::char_term(o.get_data(), prec, a), o.get_ftor()); }
    template<class F> static auto rebuild_term(const ctpg::custom_term<F>& o, int prec, ctpg::associativity a) { return ctpg::custom_term(o.get_name(), o.get_ftor(), prec, a); }
    template<size_t I, class P> static void reanalyze_term(P& p, int prec, int assoc)
    {
        using T = std::tuple_element_t<I, std::decay_t<decltype(p.term_tuple)>>;
        static thread_local std::optional<T> slot;           // term_names / term_ids keep pointers into the term object: it must outlive the parse
        slot.emplace(rebuild_term(std::get<I>(p.term_tuple), prec, ctpg::associativity(assoc)));
        p.template analyze_term<I>(*slot);
    }
    template<class P, class DslTerm, size_t... I> static void reanalyze_terms(P& p, const ref::Grammar& g, DslTerm dsl_term, std::index_sequence<I...>)
    {
        auto one = [&](auto ic) { constexpr size_t K = decltype(ic)::value; int prec = 0, assoc = 0; if (int(K) < g.nT) { std::pair<int, int> pa = dsl_term(int(K), g.tprec[K], int(g.tassoc[K])); prec = pa.first; assoc = pa.second; } reanalyze_term<K>(p, prec, assoc); };
        (one(std::integral_constant<size_t, I>{}), ...);
    }
    //   dsl_term(t,prec,assoc) : (precedence, associativity) that a term object built with the public constructors reports for the declared values
    template<class P, class DslPrec, class DslTerm>
    static void inject(P& p, const ref::Grammar& g, int park, const std::vector<std::vector<int>>& slot_pattern, DslPrec dsl_prec, DslTerm dsl_term)
    {
        using symbol = typename P::symbol;
        using rule_info = typename P::rule_info;
        constexpr size_t RC = P::rule_count;
        p.gi = typename P::grammar_info{};
        // terms: the constructor's own analyze_term<I> runs on a term object of the template's term type (typed_term<char_term, F> / custom_term<F>)
        // rebuilt with the generated precedence and associativity; <eof> and the error token through their own analysis functions
        reanalyze_terms(p, g, dsl_term, std::make_index_sequence<std::tuple_size_v<std::decay_t<decltype(p.term_tuple)>>>{});
        p.analyze_eof();
        p.analyze_error_recovery_token();
        std::vector<const ref::Rule*> by_slot(RC - 1, nullptr);
        for (auto& r : g.rules) by_slot.at(size_t(r.slot)) = &r;
        for (size_t s = 0; s + 1 < RC; ++s)
        {
            const auto& pat = slot_pattern[s];
            size_t n = pat.size();
            if (by_slot[s])
            {
                const ref::Rule& r = *by_slot[s];
                if (r.rhs.size() != n) throw std::logic_error("inject: arity mismatch");
                for (size_t i = 0; i < n; ++i)
                {
                    const ref::Sym& sy = r.rhs[i];
                    bool is_err = sy.term && sy.idx == g.err();
                    if (is_err != (pat[i] == 1)) throw std::logic_error("inject: error position mismatch");
                    p.gi.right_sides[s][i] = symbol(sy.term, ctpg::size16_t(is_err ? P::error_recovery_token_idx : sy.idx));
                }
                p.gi.rule_infos[s] = rule_info{ctpg::size16_t(r.lhs), ctpg::size16_t(s), ctpg::size16_t(n)};
                p.gi.rule_last_terms[s] = p.calculate_rule_last_term(ctpg::size16_t(s), ctpg::size16_t(n));
                p.gi.rule_precedences[s] = p.calculate_rule_precedence(dsl_prec(r.has_prec, r.prec), ctpg::size16_t(s));
                p.gi.rule_associativities[s] = p.calculate_rule_associativity(ctpg::size16_t(s));
            }
            else
            {
                for (size_t i = 0; i < n; ++i)
                    p.gi.right_sides[s][i] = pat[i] == 1 ? symbol(true, P::error_recovery_token_idx) : symbol(true, 0);
                p.gi.rule_infos[s] = rule_info{ctpg::size16_t(park), ctpg::size16_t(s), ctpg::size16_t(n)};
                p.gi.rule_last_terms[s] = p.calculate_rule_last_term(ctpg::size16_t(s), ctpg::size16_t(n));
                p.gi.rule_precedences[s] = p.calculate_rule_precedence(dsl_prec(false, 0), ctpg::size16_t(s));
                p.gi.rule_associativities[s] = p.calculate_rule_associativity(ctpg::size16_t(s));
            }
        }
        // root rule, as analyze_rules does
        p.gi.right_sides[P::root_rule_idx][0] = symbol(false, ctpg::size16_t(g.root));
        p.gi.rule_infos[P::root_rule_idx] = rule_info{P::fake_root_idx, ctpg::size16_t(P::root_rule_idx), 1};
        p.gi.rule_last_terms[P::root_rule_idx] = p.calculate_rule_last_term(P::root_rule_idx, 1);
        p.gi.rule_precedences[P::root_rule_idx] = p.calculate_rule_precedence(dsl_prec(false, 0), P::root_rule_idx);
        p.gi.rule_associativities[P::root_rule_idx] = p.calculate_rule_associativity(P::root_rule_idx);
        ctpg::stdex::sort(p.gi.rule_infos, [](const auto& ri1, const auto& ri2) { return ri1.l_idx < ri2.l_idx; });
        p.make_nterm_rule_slices();
        for (size_t i = 0; i < P::state_count_cap; ++i)
        {
            p.states[i] = typename P::situation_set{};
            for (size_t j = 0; j < P::symbol_count; ++j) p.parse_table[i][j] = typename P::parse_table_entry{};
        }
        p.state_count = 0;
        // the analyzer is several MB: keep one raw block per parser type and construct in place each time
        using SA = typename P::state_analyzer;
        static_assert(std::is_trivially_destructible_v<SA>, "state_analyzer is placement-constructed without a destructor call");
        static unsigned char* block = static_cast<unsigned char*>(::operator new(sizeof(SA), std::align_val_t(alignof(SA))));
        SA* sa = new (block) SA(p.gi, p.states, p.parse_table);
        p.state_count = sa->analyze_states();
    }

    template<class P>
    static TableDump dump(const P& p)
    {
        TableDump d; d.state_count = p.state_count; d.term_count = P::term_count; d.nterm_count = P::nterm_count;
        for (size_t i = 0; i < p.state_count; ++i)
        {
            std::vector<TableDump::Entry> row;
            for (size_t j = 0; j < P::symbol_count; ++j)
            {
                const auto& e = p.parse_table[i][j];
                row.push_back(TableDump::Entry{int(e.kind), int(e.arg), e.has_sr_conflict != 0});
            }
            d.rows.push_back(row);
        }
        for (size_t i = 0; i < P::rule_count; ++i) d.rule_of_info.push_back(int(p.gi.rule_infos[i].r_idx));
        return d;
    }

    // number of situations in state i (as write_diag_str counts them)
    template<class P>
    static size_t situations_in_state(const P& p, size_t i)
    {
        size_t c = 0;
        for (ctpg::size32_t j = 0; j < P::situation_address_space_size; ++j) if (p.states[i].test(j)) ++c;
        return c;
    }
};
}

// Shared by the grammar-injection engines: case type, JSON, structural shrinking, the Runner around a template parser
// (prepare reference, inject, observe one parse), expected messages, case generation.
#pragma once
#include "gen_grammar.hpp"
#include "diag_text.hpp"
#include "buffers.hpp"
#include <sstream>

using eng::Choice; using eng::Stats; using eng::Verdict;
using ref::Grammar;
using ctpg_verif::access;

using TT36 = tpl::T36<tpl::small_limits>;
using TT20 = tpl::T20<tpl::small_limits>;

struct GCase
{
    int tmpl = 0;            // 0 = T36 (arity <= 4), 1 = T20 (arity <= 2)
    Grammar g;
    std::vector<gg::Input> inputs;
    std::string strategy;
};

static const std::vector<tpl::SlotInfo>& slots_of(int tmpl) { return tmpl == 0 ? tpl::t36_slots() : tpl::t20_slots(); }

static vj::Value gcase_to_json(const GCase& c)
{
    vj::Value o = vj::Value::object();
    o.set("kind", "grammar"); o.set("template", c.tmpl == 0 ? "T36s" : "T20s"); o.set("strategy", c.strategy);
    o.set("grammar", ref::to_json(c.g));
    vj::Value in = vj::Value::array();
    for (auto& i : c.inputs) { vj::Value x = vj::Value::object(); x.set("hex", vj::hex(i.text)); x.set("text", i.text); x.set("ws", i.skip_ws); x.set("nl", i.skip_nl); in.push(x); }
    o.set("inputs", in);
    return o;
}
static GCase gcase_from_json(const vj::Value& o)
{
    GCase c; c.g = ref::grammar_from_json(o.at("grammar")); c.strategy = o.at("strategy").as_str();
    c.tmpl = o.at("template").as_str() == "T20s" ? 1 : 0;
    for (size_t i = 0; i < o.at("inputs").size(); ++i)
    {
        const vj::Value& x = o.at("inputs").at(i);
        gg::Input in; in.text = vj::unhex(x.at("hex").as_str()); in.skip_ws = x.at("ws").as_bool(true); in.skip_nl = x.at("nl").as_bool(true);
        c.inputs.push_back(in);
    }
    return c;
}

static std::vector<GCase> gcase_shrinks(const GCase& c, const vj::Value& detail)
{
    std::vector<GCase> out;
    if (detail.has("input_index") && c.inputs.size() > 1)
    {
        size_t k = size_t(detail.at("input_index").as_int());
        if (k < c.inputs.size()) { GCase d = c; d.inputs = {c.inputs[k]}; out.push_back(d); }
    }
    if (!detail.has("input_index") && c.inputs.size() > 1) { GCase d = c; d.inputs.resize(1); out.push_back(d); }
    if (c.inputs.size() > 1 && c.inputs.size() <= 12)
        for (size_t k = 0; k < c.inputs.size(); ++k) { GCase d = c; d.inputs.erase(d.inputs.begin() + long(k)); out.push_back(d); }
    for (size_t r = 0; r < c.g.rules.size(); ++r) { GCase d = c; d.g.rules.erase(d.g.rules.begin() + long(r)); out.push_back(d); }
    if (c.inputs.size() <= 4)
    {
        for (size_t k = 0; k < c.inputs.size(); ++k)
        {
            size_t n = c.inputs[k].text.size();
            if (n > 64)     // long inputs: delete chunks (halves, quarters, ...), never one candidate per byte
            {
                for (size_t chunk = n / 2; chunk >= 16; chunk /= 2)
                    for (size_t p = 0; p + chunk <= n && out.size() < 400; p += chunk) { GCase d = c; d.inputs[k].text.erase(p, chunk); out.push_back(d); }
                continue;
            }
            for (size_t p = 0; p < n; ++p) { GCase d = c; d.inputs[k].text.erase(p, 1); out.push_back(d); }
        }
        for (size_t r = 0; r < c.g.rules.size(); ++r) if (c.g.rules[r].has_prec) { GCase d = c; d.g.rules[r].has_prec = false; d.g.rules[r].prec = 0; out.push_back(d); }
        for (int t = 0; t < c.g.nT; ++t) if (c.g.tprec[size_t(t)] || c.g.tassoc[size_t(t)]) { GCase d = c; d.g.tprec[size_t(t)] = 0; d.g.tassoc[size_t(t)] = ref::NONE; out.push_back(d); }
        for (size_t k = 0; k < c.inputs.size(); ++k)
        {
            if (!c.inputs[k].skip_ws) { GCase d = c; d.inputs[k].skip_ws = true; out.push_back(d); }
            if (!c.inputs[k].skip_nl) { GCase d = c; d.inputs[k].skip_nl = true; out.push_back(d); }
        }
    }
    return out;
}

// ---------------------------------------------------------------------------------------------------
struct UserStream
{
    std::ostringstream os;
    template<class T> UserStream& operator<<(T&& v) { os << v; return *this; }
};

struct Obs
{
    bool threw = false; std::string exc;
    bool has = false; uint64_t value = 0;
    std::string err;
    tpl::CallLog log;
    bool checked = false; bool any_deref = false; size_t max_deref = 0; size_t derefs = 0;   // buffer kind 2 (checked user buffer)
};

struct Prepared
{
    ref::Analysis an; ref::Table table; std::string why;
};

template<class TT>
struct Runner
{
    using PS = typename TT::parser_type;
    static PS& parser() { return *TT::instance(); }

    static bool prepare(const Grammar& g, Prepared& pr)
    {
        pr.an = ref::analyse(g);
        pr.table = ref::build_lr1(g, pr.an, access::state_cap<PS>() + 1);
        if (pr.table.states.size() > access::state_cap<PS>() || pr.table.cells.size() != pr.table.states.size()) { pr.why = "template-cap-states"; return false; }
        if (pr.table.max_items > access::sit_cap<PS>()) { pr.why = "template-cap-items"; return false; }
        return true;
    }
    static void inject(const Grammar& g)
    {
        static const auto patterns = tpl::patterns_of(TT::slots());
        access::inject(parser(), g, tpl::T36_PARK, patterns, [](bool h, int pr) { return TT::dsl_prec(h, pr); }, [](int t, int pr, int as) { return TT::dsl_term(t, pr, as); });
    }
    // stream: 0 none, 1 std::ostringstream, 2 user stream ; buffer: 0 string_view over an exact heap copy, 1 string_buffer, 2 checked user buffer
    // when set, calls that report to a std::ostringstream all use this one object (its text is cleared between calls, nothing else is touched)
    static std::ostringstream*& shared_stream() { static thread_local std::ostringstream* s = nullptr; return s; }
    static Obs observe(const gg::Input& in, bool verbose, int stream, int buffer)
    {
        Obs o; tpl::CallLog* outer_log = tpl::g_log; tpl::g_log = &o.log;      // (an operation started from inside a functor restores the outer log)
        PS& p = parser();
        auto opts = ctpg::parse_options{}.set_skip_whitespace(in.skip_ws).set_skip_newline(in.skip_nl).set_verbose(verbose);
        std::unique_ptr<char[]> exact(new char[in.text.size() ? in.text.size() : 1]);
        std::memcpy(exact.get(), in.text.data(), in.text.size());
        std::string_view sv(exact.get(), in.text.size());
        const char* base = nullptr;
        try
        {
            auto take = [&](auto&& res) { o.has = res.has_value(); if (o.has) o.value = res.value().get_value().h; };
            auto with_buffer = [&](auto& strm)
            {
                // with default options the shorter public overloads are used as well: parse(buffer, stream) here, parse(buffer) below
                const bool dflt = in.skip_ws && in.skip_nl && !verbose;
                if (buffer == 0) { ctpg::buffers::string_view_buffer b(sv); base = sv.data(); if (dflt && (in.text.size() % 2)) take(p.parse(b, strm)); else take(p.parse(opts, b, strm)); }
                else if (buffer == 1)
                {
                    // a string_buffer is a value: the parse runs on a copy of a moved buffer whose originals have been overwritten and destroyed
                    auto* b0 = new ctpg::buffers::string_buffer(std::string(in.text));
                    auto* b1 = new ctpg::buffers::string_buffer(std::move(*b0));
                    ctpg::buffers::string_buffer b(*b1);
                    *b0 = ctpg::buffers::string_buffer("#overwritten#"); *b1 = ctpg::buffers::string_buffer("#overwritten-too#-----------------------------");
                    delete b0; delete b1;
                    base = b.get_view(b.begin(), b.end()).data(); take(p.parse(opts, b, strm));
                }
                else
                {
                    vb::CheckedBuffer b(in.text); base = b.s.data(); o.checked = true;
                    try { take(p.parse(opts, b, strm)); } catch (...) { o.any_deref = b.any_deref; o.max_deref = b.max_deref; o.derefs = b.derefs; throw; }
                    o.any_deref = b.any_deref; o.max_deref = b.max_deref; o.derefs = b.derefs;
                }
            };
            if (stream == 0 && buffer == 0 && in.skip_ws && in.skip_nl && !verbose && (in.text.size() % 3 == 0))
            {   // parse(buffer): no stream argument at all
                ctpg::buffers::string_view_buffer b(sv); base = sv.data(); take(p.parse(b));
            }
            else if (stream == 0) { ctpg::utils::no_stream ns; with_buffer(ns); }
            else if (stream == 1 && shared_stream()) { std::ostringstream& os = *shared_stream(); os.str(std::string()); with_buffer(os); o.err = os.str(); }   // the caller's long-lived stream (like std::cerr)
            else if (stream == 1) { std::ostringstream os; with_buffer(os); o.err = os.str(); }
            else { UserStream us; with_buffer(us); o.err = us.os.str(); }
        }
        catch (const std::exception& e) { o.threw = true; o.exc = e.what(); }
        tpl::g_log = outer_log;
        // term functor pointers are only comparable while the buffer lives: they were converted to offsets by the log hook below
        for (auto& t : o.log.terms) t.data = reinterpret_cast<const char*>(t.data - base);
        return o;
    }
    static std::string diag()
    {
        if (shared_stream()) { std::ostringstream& os = *shared_stream(); os.str(std::string()); parser().write_diag_str(os); return os.str(); }
        std::ostringstream os; parser().write_diag_str(os); return os.str();
    }
    static ctpg_verif::TableDump dump() { return access::dump(parser()); }
};

struct Expect { gg::Lexed L; ref::RunResult rr; };
static Expect expect_for(const Prepared& pr, const gg::Input& in, bool track = false)
{
    Expect e; e.L = gg::lex_ref(in.text, in.skip_ws, in.skip_nl);
    e.rr = ref::run_lr(pr.table, e.L.toks, track, e.L.lex_error);
    return e;
}

// parsed non-verbose error stream
struct Msg { int kind; int line, col; std::string s; };   // kind 0 syntax error (s = name) ; 1 unexpected character (s = byte)
static bool parse_msgs(const std::string& err, std::vector<Msg>& out)
{
    size_t p = 0;
    while (p < err.size())
    {
        int l = 0, c = 0, used = 0;
        if (sscanf(err.c_str() + p, "[%d:%d] PARSE: %n", &l, &c, &used) < 2 || used == 0) return false;
        p += size_t(used);
        const std::string se = "Syntax error: Unexpected '";
        const std::string uc = "Unexpected character: ";
        if (err.compare(p, se.size(), se) == 0)
        {
            p += se.size(); size_t q = err.find("'\n", p); if (q == std::string::npos) return false;
            out.push_back(Msg{0, l, c, err.substr(p, q - p)}); p = q + 2;
        }
        else if (err.compare(p, uc.size(), uc) == 0)
        {
            p += uc.size();
            if (p + 2 > err.size() || err[p + 1] != '\n') return false;
            out.push_back(Msg{1, l, c, err.substr(p, 1)}); p += 2;
        }
        else return false;
    }
    return true;
}

static std::vector<Msg> expected_msgs(const Grammar& g, const Expect& e)
{
    std::vector<Msg> m;
    for (int ti : e.rr.error_tokens)
    {
        if (size_t(ti) < e.L.toks.size()) m.push_back(Msg{0, e.L.toks[size_t(ti)].line, e.L.toks[size_t(ti)].col, g.tname(e.L.toks[size_t(ti)].term)});
        else m.push_back(Msg{0, e.L.eof_line, e.L.eof_col, "<eof>"});
    }
    if (e.rr.lex_error_reached) m.push_back(Msg{1, e.L.err_line, e.L.err_col, std::string(1, char(e.L.err_byte))});
    return m;
}
static vj::Value msgs_json(const std::vector<Msg>& m)
{
    vj::Value a = vj::Value::array();
    for (auto& x : m) { vj::Value o = vj::Value::object(); o.set("kind", x.kind == 0 ? "syntax" : "char"); o.set("line", x.line); o.set("col", x.col); o.set("s", x.s); a.push(o); }
    return a;
}
static bool same_msgs(const std::vector<Msg>& a, const std::vector<Msg>& b)
{
    if (a.size() != b.size()) return false;
    for (size_t i = 0; i < a.size(); ++i) if (a[i].kind != b[i].kind || a[i].line != b[i].line || a[i].col != b[i].col || a[i].s != b[i].s) return false;
    return true;
}

static void labels_for(const Grammar& g, const Prepared& pr, Stats& st, const GCase& c)
{
    const std::string& strategy = c.strategy;
    st.label("strategy:" + strategy.substr(0, strategy.find('+')));
    if (strategy.find("seed:") == 0) st.label("strategy:seed(any)");
    if (strategy.find("wide-precedence-values") != std::string::npos) st.label("precedence-values-beyond-8-bits");
    st.label(c.tmpl == 0 ? "template:T36" : c.tmpl == 1 ? "template:T20" : "template:TK");
    { size_t mx = 0; for (auto& r : g.rules) mx = std::max(mx, r.rhs.size()); if (mx >= 5) st.label("rule-arity>=5"); }
    { bool far = false, deepi = false, many = false; for (auto& in : c.inputs) { if (in.text.size() > 65536) far = true; else if (in.text.size() > 1000 && in.text.size() < 65000) deepi = true; if (far && in.text.find_first_not_of(" \t\n\r\v\f") != std::string::npos) { size_t nb = 0; for (char ch : in.text) if ((unsigned char)ch > 32) ++nb; if (nb > 65536) many = true; } } if (far) st.label("input-with-term-beyond-64KiB"); if (deepi) st.label("input-longer-than-1000-terms"); if (many) st.label("input-with-more-than-65536-terms"); }
    if (pr.an.left_rec) st.label("left-rec");
    if (pr.an.right_rec) st.label("right-rec");
    if (pr.an.mutual_rec) st.label("mutual-left-rec");
    if (pr.an.has_eps) st.label("eps-rules");
    if (pr.an.has_unit) st.label("unit-chains");
    bool unused = false; for (auto& r : g.rules) if (!pr.an.reachable[size_t(r.lhs)]) unused = true;
    if (unused) st.label("unused-symbols");
    if (!pr.an.all_productive) st.label("unproductive-nonterminal");
}

static vj::Value fail_detail(size_t k, const gg::Input& in)
{
    vj::Value d = vj::Value::object(); d.set("input_index", (unsigned long long)k); d.set("input", in.text); d.set("ws", in.skip_ws); d.set("nl", in.skip_nl);
    return d;
}

// shared by every grammar property: generation
static GCase gen_case(Choice& ch, gg::Flavor fl, size_t n_random, bool bad_chars, bool options, bool deep = false)
{
    GCase c;
    c.tmpl = ch.chance(2, 5) ? 1 : 0;
    c.g = gg::gen_grammar(ch, fl, c.strategy, slots_of(c.tmpl));
    eng::Rng rng = ch.fork();
    ref::Analysis an = ref::analyse(c.g);
    size_t exh = 40 + ch.below(8) * 50;
    gg::gen_inputs(c.g, an, rng, exh, n_random, c.inputs);
    if (bad_chars)
    {
        static const char bad[] = {'z', '!', '\x80', '\0', '\xff', 'A', '\n'};
        size_t n = c.inputs.size();
        for (size_t i = 0; i < n; ++i)
            if (rng.chance(1, 12))
            {
                gg::Input in = c.inputs[i];
                in.text.insert(in.text.begin() + rng.below(uint32_t(in.text.size() + 1)), bad[rng.below(7)]);
                c.inputs.push_back(in);
            }
    }
    if (options)
        for (auto& in : c.inputs) { if (rng.chance(1, 6)) in.skip_nl = false; if (rng.chance(1, 10)) in.skip_ws = false; }
    if (ch.chance(1, 12) && !c.inputs.empty())
    {
        // a far input: blanks push a token of an existing input beyond byte offset 65535 (16-bit offsets, lengths and columns wrap there)
        gg::Input in = c.inputs[rng.below(uint32_t(c.inputs.size()))];
        in.skip_ws = true;
        size_t pos = 0, want = rng.below(3);   // in front of the first, second or third token
        for (size_t i = 0, seen = 0; i < in.text.size() && seen < want; ++i) { if ((unsigned char)in.text[i] > 32) ++seen; pos = i + 1; }
        std::string pad(65500 + rng.below(80), rng.chance(1, 3) ? '\t' : ' ');
        if (in.skip_nl && rng.chance(1, 4)) pad.assign(pad.size(), '\n');                     // line numbers beyond 65535
        else if (in.skip_nl && rng.chance(1, 2)) pad[rng.below(uint32_t(pad.size()))] = '\n';
        in.text.insert(pos, pad);
        c.inputs.push_back(in);
    }
    if (deep && ch.chance(1, 4))
    {
        // one or two very deep sentences: the parse stacks grow past their initial reservation of 1024 entries
        std::vector<int> toks;
        size_t n = 1030 + ch.below(4) * 520;
        if (rng.chance(1, 6)) n = 65600 + rng.below(4000);          // a target above 20000 asks for that many TERMS: more than 65535 terms in one input
        if (gg::deep_sentence(c.g, an, n, rng, toks)) { c.inputs.push_back(gg::Input{gg::render(toks, nullptr)}); if (!toks.empty() && rng.chance(1, 2)) { toks.resize(toks.size() - 1 - rng.below(uint32_t(std::min<size_t>(toks.size() - 1, 3)))); c.inputs.push_back(gg::Input{gg::render(toks, nullptr)}); } }
    }
    return c;
}


// Grammar and input generators (DESIGN.md 4.2 / 4.3) working on a Choice source.
#pragma once
#include "ref_grammar.hpp"
#include "templates.hpp"

namespace gg
{
using ref::Grammar; using ref::Rule; using ref::Sym; using eng::Choice;

struct Abstract       // grammar before slot assignment
{
    int nN = 1; int root = 0;
    std::vector<Rule> rules;
    std::vector<int> tprec = std::vector<int>(tpl::T36_TERMS, 0);
    std::vector<ref::Assoc> tassoc = std::vector<ref::Assoc>(tpl::T36_TERMS, ref::NONE);
    std::string strategy;
};

inline Sym T(int t) { return Sym{true, t}; }
inline Sym N(int n) { return Sym{false, n}; }
inline Sym ERRSYM() { return Sym{true, tpl::T36_TERMS + 1}; }
inline Rule mk(int lhs, std::vector<Sym> rhs) { Rule r; r.lhs = lhs; r.rhs = std::move(rhs); return r; }

// assign template slots; rules that find no free slot are dropped. Source order becomes slot order.
// slot pattern codes: 0 any ordinary symbol, 1 error symbol, 2 terminal only, 3 nonterminal only
inline bool slot_matches(const std::vector<int>& pat, const Rule& r, int errsym)
{
    if (pat.size() != r.rhs.size()) return false;
    for (size_t i = 0; i < pat.size(); ++i)
    {
        bool is_err = r.rhs[i].term && r.rhs[i].idx == errsym;
        switch (pat[i]) { case 0: if (is_err) return false; break; case 1: if (!is_err) return false; break; case 2: if (is_err || !r.rhs[i].term) return false; break; default: if (r.rhs[i].term) return false; break; }
    }
    return true;
}
inline char& prefer_kind() { static char k = 0; return k; }    // engines may bias slot choice towards a functor kind (C13: 'c')

inline Grammar assign_slots(const Abstract& a, Choice& ch, bool randomise, const std::vector<tpl::SlotInfo>& slots)
{
    Grammar g; g.nT = tpl::T36_TERMS; g.nN = tpl::T36_NT; g.root = a.root; g.tprec = a.tprec; g.tassoc = a.tassoc;
    size_t max_ar = 0; for (auto& sl : slots) max_ar = std::max(max_ar, sl.pattern.size());
    std::vector<bool> used(slots.size(), false);
    for (auto r : a.rules)
    {
        if (r.rhs.size() > max_ar || r.lhs < 0 || r.lhs >= g.nN) continue;
        std::vector<int> cands;
        for (size_t s = 0; s < slots.size(); ++s) if (!used[s] && slot_matches(slots[s].pattern, r, g.err())) cands.push_back(int(s));
        if (cands.empty()) continue;
        if (prefer_kind())
        {
            std::vector<int> pref; for (int s : cands) if (slots[size_t(s)].kind == prefer_kind()) pref.push_back(s);
            if (!pref.empty() && ch.chance(3, 4)) cands = pref;
        }
        int pick = randomise ? cands[ch.below(uint32_t(cands.size()))] : cands[0];
        used[size_t(pick)] = true; r.slot = pick; r.passthrough = slots[size_t(pick)].kind == 'd';
        g.rules.push_back(r);
    }
    std::stable_sort(g.rules.begin(), g.rules.end(), [](const Rule& x, const Rule& y) { return x.slot < y.slot; });
    return g;
}

// --- strategy: free random ---------------------------------------------------------------------
inline Abstract gen_random(Choice& ch, bool allow_error)
{
    Abstract a; a.strategy = "random";
    a.nN = 1 + int(ch.weighted({3, 4, 3, 2, 1, 1}));
    int nT = 1 + int(ch.weighted({2, 4, 4, 2, 1, 1}));
    int nrules = 1 + int(ch.below(12));
    a.root = 0;
    for (int i = 0; i < nrules; ++i)
    {
        Rule r; r.lhs = i < a.nN ? i : int(ch.below(uint32_t(a.nN)));
        int ar = int(ch.weighted({6, 15, 15, 9, 3, 2, 1}));
        for (int k = 0; k < ar; ++k)
        {
            if (ch.chance(1, 2)) r.rhs.push_back(N(int(ch.below(uint32_t(a.nN)))));
            else r.rhs.push_back(T(int(ch.below(uint32_t(nT)))));
        }
        if (allow_error && ar >= 1 && ch.chance(1, 6)) r.rhs[ch.below(uint32_t(ar))] = ERRSYM();
        a.rules.push_back(r);
    }
    return a;
}

// --- strategy: combinators ----------------------------------------------------------------------
// Builds nonterminals bottom-up: N_{k} is defined by a construct over terminals and nonterminals with larger index
// (plus self reference where the construct is recursive), which yields mostly LR(1) grammars with realistic shapes.
inline Abstract gen_combinator(Choice& ch)
{
    Abstract a; a.strategy = "combinator";
    a.nN = 1 + int(ch.weighted({2, 4, 4, 3, 2, 1}));
    int nT = 2 + int(ch.below(5)); if (nT > 6) nT = 6;
    a.root = 0;
    auto atom = [&](int self) -> Sym
    {
        // a terminal, or a nonterminal with a larger index (acyclic apart from the construct's own recursion)
        if (self + 1 < a.nN && ch.chance(1, 2)) return N(self + 1 + int(ch.below(uint32_t(a.nN - self - 1))));
        return T(int(ch.below(uint32_t(nT))));
    };
    for (int x = 0; x < a.nN; ++x)
    {
        switch (ch.weighted({3, 3, 3, 2, 2, 2, 2, 1, 2}))
        {
        case 0: { // alternatives of atoms / short sequences
            int k = 1 + int(ch.below(3));
            for (int i = 0; i < k; ++i)
            {
                int len = 1 + int(ch.weighted({4, 3, 1}));
                std::vector<Sym> rhs; for (int j = 0; j < len; ++j) rhs.push_back(atom(x));
                a.rules.push_back(mk(x, rhs));
            }
            break; }
        case 1: { // left-recursive list, optional separator, base item or empty
            Sym item = atom(x); bool sep = ch.chance(1, 2); Sym s = T(int(ch.below(uint32_t(nT))));
            if (sep) a.rules.push_back(mk(x, {N(x), s, item})); else a.rules.push_back(mk(x, {N(x), item}));
            if (ch.chance(1, 3)) a.rules.push_back(mk(x, {})); else a.rules.push_back(mk(x, {item}));
            break; }
        case 2: { // right-recursive list
            Sym item = atom(x); bool sep = ch.chance(1, 2); Sym s = T(int(ch.below(uint32_t(nT))));
            if (sep) a.rules.push_back(mk(x, {item, s, N(x)})); else a.rules.push_back(mk(x, {item, N(x)}));
            if (ch.chance(1, 3)) a.rules.push_back(mk(x, {})); else a.rules.push_back(mk(x, {item}));
            break; }
        case 3: { // optional
            a.rules.push_back(mk(x, {atom(x)})); a.rules.push_back(mk(x, {}));
            break; }
        case 4: { // bracketed recursion
            Sym o = T(int(ch.below(uint32_t(nT)))), c = T(int(ch.below(uint32_t(nT))));
            a.rules.push_back(mk(x, {o, N(x), c})); a.rules.push_back(mk(x, {atom(x)}));
            break; }
        case 5: { // sequence (up to 6 symbols: statement-like rules)
            std::vector<Sym> rhs; int len = 2 + int(ch.weighted({4, 4, 3, 2, 1})); for (int j = 0; j < len; ++j) rhs.push_back(atom(x));
            a.rules.push_back(mk(x, rhs));
            if (ch.chance(1, 2)) a.rules.push_back(mk(x, {atom(x)}));
            break; }
        case 6: { // unit chain + alternative
            a.rules.push_back(mk(x, {atom(x)}));
            if (ch.chance(1, 2)) a.rules.push_back(mk(x, {T(int(ch.below(uint32_t(nT)))), atom(x)}));
            break; }
        case 7: { // expression ladder level: X -> X op Y | Y
            Sym y = atom(x); Sym op = T(int(ch.below(uint32_t(nT))));
            a.rules.push_back(mk(x, {N(x), op, y})); a.rules.push_back(mk(x, {y}));
            break; }
        default: { // prefix-sharing alternatives: X -> a Y b | a Z c
            Sym p = T(int(ch.below(uint32_t(nT))));
            a.rules.push_back(mk(x, {p, atom(x), T(int(ch.below(uint32_t(nT))))}));
            a.rules.push_back(mk(x, {p, atom(x), T(int(ch.below(uint32_t(nT))))}));
            break; }
        }
    }
    return a;
}

// --- strategy: seeds (the shapes C01 names) + mutation ---------------------------------------------
inline std::vector<Abstract> seed_grammars()
{
    std::vector<Abstract> v;
    auto add = [&](const char* name, int nN, std::vector<Rule> rules) { Abstract a; a.nN = nN; a.rules = std::move(rules); a.strategy = std::string("seed:") + name; v.push_back(a); };
    // two kernel items sharing a closure item
    add("shared-closure", 4, {mk(0, {N(1)}), mk(0, {N(2)}), mk(0, {T(5), N(2)}), mk(1, {N(3), T(0)}), mk(2, {N(3), T(0), T(1)}), mk(3, {T(2)})});
    // maximal-length rule ending in a nonterminal followed by another rule
    add("max-rule-tail", 4, {mk(0, {T(0), N(1)}), mk(2, {T(1), T(2)}), mk(1, {N(3), N(2)}), mk(3, {T(3)})});
    // mutual left recursion
    add("mutual-left-rec", 4, {mk(0, {N(1)}), mk(0, {T(2), N(3), N(2)}), mk(3, {T(4)}), mk(1, {N(2), T(5)}), mk(1, {T(0)}), mk(2, {N(1), T(3)}), mk(2, {T(1)})});
    // LR(1) but not LALR(1)
    add("lr1-not-lalr", 3, {mk(0, {T(0), N(1), T(0)}), mk(0, {T(1), N(1), T(1)}), mk(0, {T(0), N(2), T(1)}), mk(0, {T(1), N(2), T(0)}), mk(1, {T(2)}), mk(2, {T(2)})});
    // hidden nullable chains
    add("nullable-chain", 4, {mk(0, {N(1), N(2), N(3), T(0)}), mk(1, {}), mk(1, {T(1)}), mk(2, {}), mk(2, {T(2)}), mk(3, {}), mk(3, {N(1), T(3)})});
    // classic expression ladder
    add("expr-ladder", 3, {mk(0, {N(0), T(0), N(1)}), mk(0, {N(1)}), mk(1, {N(1), T(1), N(2)}), mk(1, {N(2)}), mk(2, {T(2), N(0), T(3)}), mk(2, {T(4)})});
    // left-recursive list with empty base
    add("left-list-empty", 2, {mk(0, {}), mk(0, {N(0), N(1), T(0)}), mk(1, {T(1)}), mk(1, {T(1), T(2)})});
    // right recursion with empty
    add("right-list-empty", 2, {mk(0, {}), mk(0, {N(1), N(0)}), mk(1, {T(0)}), mk(1, {T(1), T(2)})});
    // unused symbols + unit chains
    add("unit-unused", 5, {mk(0, {N(1)}), mk(1, {N(2)}), mk(2, {T(0)}), mk(2, {T(1), N(0), T(2)}), mk(4, {T(3), N(4)}), mk(4, {T(3)})});
    // nullable prefix before a left-recursive list (lookahead propagation through empty rules)
    add("nullable-prefix", 4, {mk(0, {N(1), N(2)}), mk(1, {}), mk(1, {T(0)}), mk(2, {N(2), T(1), N(3)}), mk(2, {N(3)}), mk(3, {T(2)}), mk(3, {T(0), T(2)})});
    // many nullable symbols in front of one token (deep stack per input character)
    add("nullable-ladder2", 6, {mk(0, {N(1), N(2)}), mk(2, {N(1), N(3)}), mk(3, {N(1), N(4)}), mk(4, {N(1), N(5)}), mk(5, {N(1), T(0)}), mk(1, {})});
    add("nullable-ladder4", 4, {mk(0, {N(1), N(1), N(1), N(2)}), mk(2, {N(1), N(1), N(1), N(3)}), mk(3, {N(1), T(0)}), mk(1, {})});
    // statement-like rules of 5 and 6 symbols
    add("long-rules", 3, {mk(0, {T(0), N(1), T(1), N(2), T(2)}), mk(0, {T(0), N(1), T(1), N(2), T(3), N(0)}), mk(1, {T(4)}), mk(1, {N(1), T(5), T(4)}), mk(2, {T(4), T(4)}), mk(2, {})});
    // one nonterminal with many alternatives in front of something with a wide FIRST set (closure sets: alternatives x lookaheads)
    add("wide-alternatives", 3, {mk(0, {N(1), N(2)}),
        mk(1, {T(5), T(0)}), mk(1, {T(5), T(1)}), mk(1, {T(5), T(2)}), mk(1, {T(5), T(3)}), mk(1, {T(5), T(4)}),
        mk(1, {T(5), T(5), T(0)}), mk(1, {T(5), T(5), T(1)}), mk(1, {T(5), T(5), T(2)}), mk(1, {T(5), T(5), T(3)}), mk(1, {T(5), T(5), T(4)}),
        mk(1, {T(5), T(5), T(5), T(0)}), mk(1, {T(5), T(5), T(5), T(1)}), mk(1, {T(5), T(5), T(5), T(2)}),
        mk(2, {}), mk(2, {T(0)}), mk(2, {T(1)}), mk(2, {T(2)}), mk(2, {T(3)}), mk(2, {T(4)})});
    // nullability discovered late through a chain that adds nothing to FIRST; nonterminals declared top-down; FIRST used as a lookahead
    add("late-nullable", 6, {mk(0, {N(1), N(2)}), mk(1, {T(0)}), mk(2, {N(3), T(1)}), mk(3, {T(2), N(3)}), mk(3, {N(4)}), mk(4, {N(5)}), mk(5, {})});
    // an optional part in the middle of a rule, behind a nonterminal and in front of something that is not nullable
    add("optional-in-middle", 5, {mk(0, {N(1), N(2), T(0), N(3), T(1)}), mk(1, {T(2)}), mk(1, {T(3), T(2)}), mk(2, {}), mk(2, {T(4)}), mk(3, {}), mk(3, {T(5), N(4)}), mk(4, {T(2)}), mk(4, {N(4), T(4), T(2)})});
    // no empty rule anywhere + indirect left recursion whose recursive alternatives are listed before the base case + the recursive nonterminal directly after
    // another nonterminal (stmt <- label call ';' ; postfix <- call | member | id ; call <- postfix '(' ')' ; member <- postfix '.' id): FIRST sets that need the fixpoint
    // (each member of the cycle follows a nonterminal of its own, so whichever member a lazy computation leaves short shows)
    add("indirect-left-recursion-no-empty-rule", 6, {mk(0, {N(1), N(3), T(4)}), mk(0, {N(5), N(4), T(4)}), mk(0, {N(2), T(4)}), mk(1, {T(0), T(1)}), mk(5, {T(5), T(1)}), mk(2, {N(3)}), mk(2, {N(4)}), mk(2, {T(0)}), mk(3, {N(2), T(2), T(3)}), mk(4, {N(2), T(5), T(0)})});
    // palindromic-like nesting
    add("nesting", 2, {mk(0, {T(0), N(0), T(1)}), mk(0, {T(0), N(1), T(1)}), mk(1, {T(2)}), mk(1, {T(2), N(1)})});
    return v;
}

inline void mutate(Abstract& a, Choice& ch, bool allow_error)
{
    int nm = int(ch.below(4));
    for (int m = 0; m < nm; ++m)
    {
        switch (ch.below(7))
        {
        case 0: { // permute terminals
            std::vector<int> perm{0, 1, 2, 3, 4, 5};
            for (int i = 5; i > 0; --i) std::swap(perm[size_t(i)], perm[ch.below(uint32_t(i + 1))]);
            for (auto& r : a.rules) for (auto& s : r.rhs) if (s.term && s.idx < 6) s.idx = perm[size_t(s.idx)];
            break; }
        case 1: { // permute nonterminals (keeps root meaning)
            std::vector<int> perm; for (int i = 0; i < a.nN; ++i) perm.push_back(i);
            for (int i = a.nN - 1; i > 0; --i) std::swap(perm[size_t(i)], perm[ch.below(uint32_t(i + 1))]);
            for (auto& r : a.rules) { r.lhs = perm[size_t(r.lhs)]; for (auto& s : r.rhs) if (!s.term) s.idx = perm[size_t(s.idx)]; }
            a.root = perm[size_t(a.root)];
            break; }
        case 2: { // swap two rules (source order)
            if (a.rules.size() >= 2) std::swap(a.rules[ch.below(uint32_t(a.rules.size()))], a.rules[ch.below(uint32_t(a.rules.size()))]);
            break; }
        case 3: { // insert a random short rule
            Rule r; r.lhs = int(ch.below(uint32_t(a.nN)));
            int ar = int(ch.weighted({1, 3, 3, 1}));
            for (int k = 0; k < ar; ++k) r.rhs.push_back(ch.chance(1, 2) ? N(int(ch.below(uint32_t(a.nN)))) : T(int(ch.below(6))));
            a.rules.insert(a.rules.begin() + ch.below(uint32_t(a.rules.size() + 1)), r);
            break; }
        case 4: { // replace one symbol
            if (a.rules.empty()) break;
            Rule& r = a.rules[ch.below(uint32_t(a.rules.size()))];
            if (r.rhs.empty()) break;
            r.rhs[ch.below(uint32_t(r.rhs.size()))] = ch.chance(1, 2) ? N(int(ch.below(uint32_t(a.nN)))) : T(int(ch.below(6)));
            break; }
        case 5: { // add a new nonterminal wrapping an existing one (unit chain) or an empty alternative
            if (a.nN < tpl::T36_NT && ch.chance(1, 2)) { int nn = a.nN++; int tgt = int(ch.below(uint32_t(nn))); for (auto& r : a.rules) for (auto& s : r.rhs) if (!s.term && s.idx == tgt && ch.chance(1, 2)) s.idx = nn; a.rules.push_back(mk(nn, {N(tgt)})); }
            else a.rules.push_back(mk(int(ch.below(uint32_t(a.nN))), {}));
            break; }
        default: { // error alternative
            if (allow_error) { int x = int(ch.below(uint32_t(a.nN))); if (ch.chance(1, 2)) a.rules.push_back(mk(x, {ERRSYM(), T(int(ch.below(6)))})); else a.rules.push_back(mk(x, {ERRSYM()})); }
            break; }
        }
    }
}

// --- strategy: ambiguous operator grammars for C05 ------------------------------------------------
inline Abstract gen_operator(Choice& ch)
{
    Abstract a; a.strategy = "operator"; a.nN = 1; a.root = 0;
    int nops = 1 + int(ch.below(4));      // operator terminals 0..nops-1, atom terminal 5
    a.rules.push_back(mk(0, {T(5)}));
    for (int o = 0; o < nops; ++o)
    {
        switch (ch.weighted({6, 2, 2, 1, 1}))
        {
        case 0: a.rules.push_back(mk(0, {N(0), T(o), N(0)})); break;                 // binary infix
        case 1: a.rules.push_back(mk(0, {T(o), N(0)})); break;                       // prefix
        case 2: a.rules.push_back(mk(0, {N(0), T(o)})); break;                       // postfix
        case 3: a.rules.push_back(mk(0, {N(0), T(o), N(0), T(o == 0 ? 1 : 0), N(0)})); break;   // mixfix (arity 5: dropped by slot assignment) -> fallthrough variety
        default: a.rules.push_back(mk(0, {N(0), N(0)})); break;                     // juxtaposition, no terms
        }
        a.tprec[size_t(o)] = ch.range(-1, 3);
        a.tassoc[size_t(o)] = ref::Assoc(ch.below(3));
    }
    if (ch.chance(1, 4)) a.rules.push_back(mk(0, {T(4), N(0), T(3)}));            // brackets
    for (auto& r : a.rules) if (r.rhs.size() > 1 && ch.chance(1, 4)) { r.has_prec = true; r.prec = ch.range(-1, 4); }
    if (ch.chance(1, 3)) { a.tprec[5] = ch.range(0, 2); }
    return a;
}

inline void add_precedences(Abstract& a, Choice& ch)
{
    for (int t = 0; t < tpl::T36_TERMS; ++t) if (ch.chance(1, 2)) { a.tprec[size_t(t)] = ch.range(-1, 3); a.tassoc[size_t(t)] = ref::Assoc(ch.below(3)); }
    for (auto& r : a.rules) if (ch.chance(1, 5)) { r.has_prec = true; r.prec = ch.range(-1, 4); }
}

enum Flavor { CONFLICT_FREE, PRECEDENCE, RECOVERY, ANY };

// emit mode's gallery: the next grammar is the k-th seed grammar as written (no mutation); -1 = off
inline int& force_seed() { static thread_local int k = -1; return k; }

inline Grammar gen_grammar(Choice& ch, Flavor fl, std::string& strategy, const std::vector<tpl::SlotInfo>& slots)
{
    Abstract a;
    bool allow_error = (fl == RECOVERY || fl == ANY);
    uint32_t which;
    if (fl == PRECEDENCE) which = uint32_t(ch.weighted({2, 2, 2, 6}));
    else which = uint32_t(ch.weighted({4, 3, 3, 0}));
    if (force_seed() >= 0) which = 99;
    switch (which)
    {
    case 99: { auto seeds = seed_grammars(); a = seeds[size_t(force_seed()) % seeds.size()]; a.strategy += "(as written)"; break; }
    case 0: a = gen_combinator(ch); if (ch.chance(1, 3)) { mutate(a, ch, allow_error); a.strategy += "+mut"; } break;
    case 1: { auto seeds = seed_grammars(); a = seeds[ch.below(uint32_t(seeds.size()))]; mutate(a, ch, allow_error); a.strategy += "+mut"; break; }
    case 2: a = gen_random(ch, allow_error); break;
    default: a = gen_operator(ch); break;
    }
    if (fl == PRECEDENCE && which != 3) add_precedences(a, ch);
    if (fl == ANY && ch.chance(1, 3)) add_precedences(a, ch);
    if (fl == RECOVERY)
    {
        // make sure at least one rule uses the error symbol
        bool has = false; for (auto& r : a.rules) for (auto& s : r.rhs) if (s.term && s.idx == tpl::T36_TERMS + 1) has = true;
        if (!has)
        {
            int x = int(ch.below(uint32_t(a.nN)));
            switch (ch.below(6))
            {
            case 0: a.rules.push_back(mk(x, {ERRSYM()})); break;
            case 1: a.rules.push_back(mk(x, {ERRSYM(), T(int(ch.below(6)))})); break;
            case 2: a.rules.push_back(mk(x, {N(int(ch.below(uint32_t(a.nN)))), ERRSYM()})); break;
            case 3: a.rules.push_back(mk(x, {N(int(ch.below(uint32_t(a.nN)))), ERRSYM(), T(int(ch.below(6)))})); break;
            case 4: a.rules.push_back(mk(x, {ERRSYM(), T(int(ch.below(6))), T(int(ch.below(6)))})); break;
            default: a.rules.push_back(mk(x, {T(int(ch.below(6))), N(int(ch.below(uint32_t(a.nN)))), ERRSYM()})); break;
            }
        }
    }
    // precedence levels spaced the way real grammars write them (100, 200, ... or larger): same order, values beyond 8 and 16 bits
    {
        bool any = false; for (int p : a.tprec) if (p) any = true; for (auto& r : a.rules) if (r.has_prec && r.prec) any = true;
        if (any && ch.chance(1, 5))
        {
            static const int scale[] = {50, 100, 1000, 40000};
            int k = scale[ch.below(4)];
            for (int& p : a.tprec) p *= k;
            for (auto& r : a.rules) if (r.has_prec) r.prec *= k;
            a.strategy += "+wide-precedence-values";
        }
    }
    strategy = a.strategy;
    return assign_slots(a, ch, true, slots);
}

// ------------------------------------------------------------------------------------------------
// inputs
struct Input
{
    std::string text;
    bool skip_ws = true, skip_nl = true;
};

inline std::set<int> used_terms(const Grammar& g)
{
    std::set<int> s; for (auto& r : g.rules) for (auto& x : r.rhs) if (x.term && x.idx < g.nT) s.insert(x.idx);
    return s;
}

inline std::string render(const std::vector<int>& toks, eng::Rng* ws)
{
    static const char* wss[] = {" ", "\t", "\n", "\r", "\v", "\f", "  ", "\r\n", " \n "};
    std::string s;
    if (ws && ws->chance(1, 4)) s += wss[ws->below(9)];
    for (size_t i = 0; i < toks.size(); ++i)
    {
        s += char('a' + toks[i]);
        if (ws && ws->chance(1, 3)) s += wss[ws->below(9)];
    }
    return s;
}

// reference tokenisation for the char-term templates (R3 restricted to single-character terms a..f)
struct Lexed { std::vector<ref::Token> toks; bool lex_error = false; int err_line = 0, err_col = 0; unsigned char err_byte = 0; size_t err_offset = 0; int eof_line = 1, eof_col = 1; };
inline Lexed lex_ref(const std::string& text, bool skip_ws, bool skip_nl, int nterms = tpl::T36_TERMS)
{
    Lexed L; int line = 1, col = 1;
    for (size_t i = 0; i < text.size(); ++i)
    {
        unsigned char c = (unsigned char)text[i];
        bool is_ws = skip_ws && (c == 9 || c == 11 || c == 12 || c == 13 || c == 32 || (c == 10 && skip_nl));
        if (is_ws) { if (c == '\n') { ++line; col = 1; } else ++col; continue; }
        if (c >= 'a' && c < 'a' + nterms) { ref::Token t; t.term = c - 'a'; t.lexeme = std::string(1, char(c)); t.line = line; t.col = col; L.toks.push_back(t); ++col; continue; }
        L.lex_error = true; L.err_line = line; L.err_col = col; L.err_byte = c; L.err_offset = i;
        break;
    }
    L.eof_line = line; L.eof_col = col;
    return L;
}

// A sentence whose derivation goes N times round a recursion cycle  root =>* p X q,  X =>* u X v  :  p u^N w v^N q.
// Right recursion and nesting make the LR stack as deep as N (std::vector stacks reallocate at 1024, 2048, ...).
inline bool deep_sentence(const Grammar& g, const ref::Analysis& an, size_t N, eng::Rng& rng, std::vector<int>& out)
{
    auto minsent = [&](int nt, std::vector<int>& o) { eng::Rng r0(1); ref::derive(g, an, nt, 0, r0, o, 0); };
    struct Edge { int to; std::vector<int> left, right; };
    std::vector<std::vector<Edge>> adj(size_t(g.nN));
    for (size_t ri = 0; ri < g.rules.size(); ++ri)
    {
        const Rule& r = g.rules[ri];
        if (an.rule_height[ri] >= (1 << 28)) continue;
        for (size_t i = 0; i < r.rhs.size(); ++i)
        {
            if (r.rhs[i].term) continue;
            Edge e; e.to = r.rhs[i].idx;
            for (size_t k = 0; k < i; ++k) { if (r.rhs[k].term) e.left.push_back(r.rhs[k].idx); else minsent(r.rhs[k].idx, e.left); }
            for (size_t k = i + 1; k < r.rhs.size(); ++k) { if (r.rhs[k].term) e.right.push_back(r.rhs[k].idx); else minsent(r.rhs[k].idx, e.right); }
            adj[size_t(r.lhs)].push_back(e);
        }
    }
    // shortest path (in edges) from a to b with accumulated contexts
    auto path = [&](int a, int b, bool nonempty, std::vector<int>& L, std::vector<int>& R) -> bool
    {
        struct Node { int nt; int parent; int edge; };
        std::vector<Node> nodes; std::vector<bool> seen(size_t(g.nN), false);
        std::deque<int> q;
        if (!nonempty) { if (a == b) return true; }
        nodes.push_back({a, -1, -1}); q.push_back(0); if (!nonempty) seen[size_t(a)] = true;
        while (!q.empty())
        {
            int ni = q.front(); q.pop_front();
            int nt = nodes[size_t(ni)].nt;
            for (size_t ei = 0; ei < adj[size_t(nt)].size(); ++ei)
            {
                int to = adj[size_t(nt)][ei].to;
                if (to == b)
                {
                    // unwind
                    std::vector<std::pair<int, int>> chain{{nt, int(ei)}};
                    for (int c = ni; nodes[size_t(c)].parent >= 0; c = nodes[size_t(c)].parent) chain.push_back({nodes[size_t(nodes[size_t(c)].parent)].nt, nodes[size_t(c)].edge});
                    std::reverse(chain.begin(), chain.end());
                    for (auto& ce : chain) { const Edge& e = adj[size_t(ce.first)][size_t(ce.second)]; L.insert(L.end(), e.left.begin(), e.left.end()); }
                    for (auto it = chain.rbegin(); it != chain.rend(); ++it) { const Edge& e = adj[size_t(it->first)][size_t(it->second)]; R.insert(R.end(), e.right.begin(), e.right.end()); }
                    return true;
                }
                if (!seen[size_t(to)]) { seen[size_t(to)] = true; nodes.push_back({to, ni, int(ei)}); q.push_back(int(nodes.size()) - 1); }
            }
        }
        return false;
    };
    if (!an.productive[size_t(g.root)]) return false;
    std::vector<int> cands;
    for (int x = 0; x < g.nN; ++x) if (an.reachable[size_t(x)] && an.productive[size_t(x)]) cands.push_back(x);
    for (size_t tries = 0; tries < cands.size(); ++tries)
    {
        int x = cands[(tries + rng.below(uint32_t(cands.size()))) % cands.size()];
        std::vector<int> p, q, u, v, w;
        if (!path(g.root, x, false, p, q)) continue;
        if (!path(x, x, true, u, v)) continue;
        if (u.empty() && v.empty()) continue;            // unit cycle: no input consumed
        minsent(x, w);
        if (N > 20000) N = N / (u.size() + v.size()) + 1;          // N above 20000 is a target number of terms, not of rounds
        if ((u.size() + v.size()) * N > 80000) continue;
        out = p;
        for (size_t i = 0; i < N; ++i) out.insert(out.end(), u.begin(), u.end());
        out.insert(out.end(), w.begin(), w.end());
        for (size_t i = 0; i < N; ++i) out.insert(out.end(), v.begin(), v.end());
        out.insert(out.end(), q.begin(), q.end());
        return true;
    }
    return false;
}

inline void gen_inputs(const Grammar& g, const ref::Analysis& an, eng::Rng& rng, size_t exhaustive_limit, size_t n_random, std::vector<Input>& out)
{
    std::set<int> ut = used_terms(g);
    std::vector<int> alpha(ut.begin(), ut.end());
    // one terminal that the grammar does not use (if any) joins the alphabet with low weight
    int unused = -1; for (int t = 0; t < g.nT; ++t) if (!ut.count(t)) { unused = t; break; }
    if (alpha.empty()) alpha.push_back(0);
    // (i) exhaustive up to length L
    {
        size_t k = alpha.size(); size_t total = 1; size_t L = 0; size_t pw = 1;
        while (true) { pw *= k; if (total + pw > exhaustive_limit || L >= 8) break; total += pw; ++L; if (k == 1 && L >= 8) break; }
        std::vector<int> cur;
        std::function<void(size_t)> rec = [&](size_t len)
        {
            out.push_back(Input{render(cur, nullptr)});
            if (len == L) return;
            for (int t : alpha) { cur.push_back(t); rec(len + 1); cur.pop_back(); }
        };
        rec(0);
    }
    // (ii) random derivations + (iii) mutants
    if (an.productive[size_t(g.root)])
    {
        for (size_t i = 0; i < n_random; ++i)
        {
            std::vector<int> s; ref::derive(g, an, g.root, 2 + int(rng.below(6)), rng, s, 40);
            if (s.size() > 200) s.resize(200);
            bool ws = rng.chance(1, 2);
            out.push_back(Input{render(s, ws ? &rng : nullptr)});
            for (int m = 0; m < 2; ++m)
            {
                std::vector<int> mt = s;
                auto anyt = [&]() { if (unused >= 0 && rng.chance(1, 8)) return unused; return alpha[rng.below(uint32_t(alpha.size()))]; };
                switch (rng.below(6))
                {
                case 0: if (!mt.empty()) mt.erase(mt.begin() + rng.below(uint32_t(mt.size()))); break;
                case 1: mt.insert(mt.begin() + rng.below(uint32_t(mt.size() + 1)), anyt()); break;
                case 2: if (!mt.empty()) mt[rng.below(uint32_t(mt.size()))] = anyt(); break;
                case 3: if (mt.size() >= 2) { size_t p = rng.below(uint32_t(mt.size() - 1)); std::swap(mt[p], mt[p + 1]); } break;
                case 4: if (!mt.empty()) mt.resize(rng.below(uint32_t(mt.size()))); break;
                default: if (!mt.empty()) { size_t p = rng.below(uint32_t(mt.size())); mt.insert(mt.begin() + p, mt[p]); } break;
                }
                out.push_back(Input{render(mt, rng.chance(1, 3) ? &rng : nullptr)});
            }
        }
    }
}
}

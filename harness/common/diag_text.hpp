// Parser for the text that write_diag_str produces (README "Diagnostics") and for the verbose parse trace.
#pragma once
#include <map>
#include <set>
#include <sstream>
#include <string>
#include <vector>

namespace dt
{
struct Rule { int nr = -1; std::string lhs; std::vector<std::string> rhs; };
struct Item { std::string lhs; std::vector<std::string> before, after; std::string la; std::string text; };
struct Action
{
    enum K { GOTO, SHIFT, REDUCE, SUCCESS, SR_REDUCE, SR_SHIFT, RR } k = GOTO;
    std::string sym; int arg = -1;
};
struct State { int nr = -1; std::vector<Item> items; std::vector<Action> actions; };
struct Diag
{
    bool ok = false; std::string error;
    long states_n = -1, states_cap = -1, max_sit = -1, sit_cap = -1;
    std::vector<Rule> rules; std::vector<State> states;
    bool has_lexer_section = false;
};

inline std::vector<std::string> split_ws(const std::string& s)
{
    std::vector<std::string> v; std::istringstream is(s); std::string w;
    while (is >> w) v.push_back(w);
    return v;
}
inline std::vector<std::string> split_lines(const std::string& s)
{
    std::vector<std::string> v; std::string cur;
    for (char c : s) { if (c == '\n') { v.push_back(cur); cur.clear(); } else cur += c; }
    if (!cur.empty()) v.push_back(cur);
    return v;
}
inline bool starts_with(const std::string& s, const std::string& p) { return s.compare(0, p.size(), p) == 0; }

inline Diag parse_diag(const std::string& text)
{
    Diag d;
    auto lines = split_lines(text);
    size_t i = 0;
    auto fail = [&](const std::string& m) { d.ok = false; d.error = m + " at line " + std::to_string(i) + ": " + (i < lines.size() ? lines[i] : std::string("<eof>")); return d; };
    enum Sec { HEAD, RULES, STATES, LEXER } sec = HEAD;
    State* cur = nullptr;
    for (; i < lines.size(); ++i)
    {
        const std::string& ln = lines[i];
        if (ln == "PARSER") continue;
        if (ln == "RULES") { sec = RULES; continue; }
        if (ln == "STATES") { sec = STATES; continue; }
        if (ln == "LEXICAL ANALYZER") { sec = LEXER; d.has_lexer_section = true; break; }
        if (ln.empty()) continue;
        if (sec == HEAD)
        {
            long a, b;
            if (sscanf(ln.c_str(), "Number of states: %ld(cap: %ld)", &a, &b) == 2) { d.states_n = a; d.states_cap = b; }
            else if (sscanf(ln.c_str(), "Max number of situations per state: %ld(cap: %ld)", &a, &b) == 2) { d.max_sit = a; d.sit_cap = b; }
            else if (starts_with(ln, "Parser object size:")) {}
            else return fail("unexpected header line");
            continue;
        }
        if (sec == RULES)
        {
            auto w = split_ws(ln);
            if (w.size() < 3 || w[2] != "<-") return fail("bad rule line");
            Rule r; r.nr = std::stoi(w[0]); r.lhs = w[1];
            for (size_t k = 3; k < w.size(); ++k) r.rhs.push_back(w[k]);
            d.rules.push_back(r);
            continue;
        }
        // STATES
        if (starts_with(ln, "STATE "))
        {
            State s; s.nr = std::stoi(ln.substr(6)); d.states.push_back(s); cur = &d.states.back();
            continue;
        }
        if (!cur) return fail("line outside a state");
        if (starts_with(ln, "On "))
        {
            auto w = split_ws(ln);
            Action a; if (w.size() < 3) return fail("bad action");
            a.sym = w[1];
            std::string rest; for (size_t k = 2; k < w.size(); ++k) { if (k > 2) rest += " "; rest += w[k]; }
            int n = -1;
            if (sscanf(rest.c_str(), "go to %d", &n) == 1) { a.k = Action::GOTO; a.arg = n; }
            else if (sscanf(rest.c_str(), "shift to %d", &n) == 1) { a.k = Action::SHIFT; a.arg = n; }
            else if (sscanf(rest.c_str(), "reduce using (%d)", &n) == 1) { a.k = Action::REDUCE; a.arg = n; }
            else if (rest == "success") { a.k = Action::SUCCESS; }
            else if (sscanf(rest.c_str(), "S/R CONFLICT, prefer reduce(%d) over shift", &n) == 1) { a.k = Action::SR_REDUCE; a.arg = n; }
            else if (sscanf(rest.c_str(), "S/R CONFLICT, prefer shift over reduce(%d)", &n) == 1) { a.k = Action::SR_SHIFT; a.arg = n; }
            else if (starts_with(rest, "R/R CONFLICT")) { a.k = Action::RR; }
            else return fail("unknown action text");
            cur->actions.push_back(a);
            continue;
        }
        // situation line: lhs <- syms . syms ==> la
        {
            auto w = split_ws(ln);
            if (w.size() < 5 || w[1] != "<-") return fail("bad situation line");
            Item it; it.lhs = w[0]; bool dot = false; size_t k = 2;
            for (; k < w.size(); ++k)
            {
                if (w[k] == "==>") break;
                if (w[k] == "." && !dot) { dot = true; continue; }
                (dot ? it.after : it.before).push_back(w[k]);
            }
            if (!dot || k + 1 >= w.size()) return fail("bad situation line (dot/lookahead)");
            it.la = w[k + 1];
            std::string t = it.lhs + " <-";
            for (auto& x : it.before) t += " " + x;
            t += " .";
            for (auto& x : it.after) t += " " + x;
            t += " ==> " + it.la;
            it.text = t;
            cur->items.push_back(it);
        }
    }
    d.ok = true;
    return d;
}

// ---- verbose trace -----------------------------------------------------------------------------
struct TraceLine
{
    enum K { RECOGNIZED, SHIFT, REDUCE, GOTO, SUCCESS, SYNTAX_ERROR, UNEXPECTED_CHAR, ENTER_RECOVERY, RECOVERING_TO, COULD_NOT_RECOVER,
             LEAVE_RECOVERY, ENTER_CONSUME, LEAVE_CONSUME, CONSUMING, RR_ENCOUNTERED, LEXER_LINE, OTHER } k = OTHER;
    int line = 0, col = 0;
    int n = -1;             // state / rule
    std::string s;          // term name / lexeme / byte
    std::string raw;
};

inline std::vector<TraceLine> parse_trace(const std::string& text)
{
    std::vector<TraceLine> out;
    // lines may contain '\n' inside lexemes only for multi-line lexemes, which char-term templates never produce
    for (auto& ln : split_lines(text))
    {
        TraceLine t; t.raw = ln;
        int l = 0, c = 0, used = 0;
        if (sscanf(ln.c_str(), "[%d:%d]%n", &l, &c, &used) < 2) { out.push_back(t); continue; }
        t.line = l; t.col = c;
        std::string rest = ln.substr(size_t(used));
        if (starts_with(rest, " REGEX MATCH:") || starts_with(rest, " LEXER MATCH:")) { t.k = TraceLine::LEXER_LINE; out.push_back(t); continue; }
        if (!starts_with(rest, " PARSE: ")) { out.push_back(t); continue; }
        rest = rest.substr(8);
        int n = -1; char buf[256];
        if (starts_with(rest, "Recognized ")) { t.k = TraceLine::RECOGNIZED; t.s = rest.substr(11); while (!t.s.empty() && t.s.back() == ' ') t.s.pop_back(); }
        else if (sscanf(rest.c_str(), "Shift to %d, term: ", &n) == 1) { t.k = TraceLine::SHIFT; t.n = n; size_t p = rest.find("term: "); t.s = rest.substr(p + 6); }
        else if (sscanf(rest.c_str(), "Reduced using rule %d", &n) == 1) { t.k = TraceLine::REDUCE; t.n = n; size_t p = rest.find("  "); if (p != std::string::npos) t.s = rest.substr(p + 2); }
        else if (sscanf(rest.c_str(), "Go to %d", &n) == 1) { t.k = TraceLine::GOTO; t.n = n; }
        else if (starts_with(rest, "Success")) t.k = TraceLine::SUCCESS;
        else if (sscanf(rest.c_str(), "Syntax error: Unexpected '%255[^']'", buf) == 1) { t.k = TraceLine::SYNTAX_ERROR; t.s = buf; }
        else if (starts_with(rest, "Unexpected character: ")) { t.k = TraceLine::UNEXPECTED_CHAR; t.s = rest.substr(22); }
        else if (starts_with(rest, "Entering recovery mode")) t.k = TraceLine::ENTER_RECOVERY;
        else if (sscanf(rest.c_str(), "Recovering to state %d", &n) == 1) { t.k = TraceLine::RECOVERING_TO; t.n = n; }
        else if (starts_with(rest, "Could not recover")) t.k = TraceLine::COULD_NOT_RECOVER;
        else if (starts_with(rest, "Leaving recovery mode")) t.k = TraceLine::LEAVE_RECOVERY;
        else if (starts_with(rest, "Entering consume mode")) t.k = TraceLine::ENTER_CONSUME;
        else if (starts_with(rest, "Leaving consume mode")) t.k = TraceLine::LEAVE_CONSUME;
        else if (starts_with(rest, "Recovery, consuming term ")) { t.k = TraceLine::CONSUMING; t.s = rest.substr(25); while (!t.s.empty() && t.s.back() == ' ') t.s.pop_back(); }
        else if (starts_with(rest, "R/R conflict encountered")) t.k = TraceLine::RR_ENCOUNTERED;
        out.push_back(t);
    }
    return out;
}
}

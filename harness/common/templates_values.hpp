// Template parser with instrumented value types for C14 (DESIGN.md C14): nonterminal values are Tracked objects (optionally move-only),
// term payloads are Tracked objects wrapped by the library in term_value<>. Rule slots are typed by symbol kind (t = term, n = nonterminal, e = error).
#pragma once
#include "templates.hpp"
#include <unordered_set>

namespace tv
{
struct Registry
{
    long constructions = 0, destructions = 0, copies = 0, nterm_copies = 0, moves = 0, next_vid = 1;
    std::unordered_set<const void*> live;
    bool double_destroy = false, destroy_unknown = false;
    void reset() { *this = Registry{}; }
};
inline Registry& reg() { static Registry r; return r; }

struct Fresh {};
template<bool Copyable> struct TrackedT;
template<>
struct TrackedT<true>
{
    long vid = 0; bool moved_from = false; bool payload = false; uint64_t h = 0;
    explicit TrackedT(Fresh, bool payload, uint64_t h) : vid(reg().next_vid++), payload(payload), h(h) { born(); }
    TrackedT(TrackedT&& o) noexcept : vid(o.vid), moved_from(o.moved_from), payload(o.payload), h(o.h) { o.moved_from = true; reg().moves++; born(); }
    TrackedT& operator=(TrackedT&& o) noexcept { vid = o.vid; moved_from = o.moved_from; payload = o.payload; h = o.h; o.moved_from = true; reg().moves++; return *this; }
    TrackedT(const TrackedT& o) : vid(o.vid), moved_from(o.moved_from), payload(o.payload), h(o.h) { reg().copies++; if (!o.payload) reg().nterm_copies++; born(); }
    TrackedT& operator=(const TrackedT& o) { vid = o.vid; moved_from = o.moved_from; payload = o.payload; h = o.h; reg().copies++; if (!o.payload) reg().nterm_copies++; return *this; }
    ~TrackedT() { reg().destructions++; if (!reg().live.erase(this)) reg().destroy_unknown = true; }
private:
    void born() { reg().constructions++; reg().live.insert(this); }
};
template<>
struct TrackedT<false>
{
    long vid = 0; bool moved_from = false; bool payload = false; uint64_t h = 0;
    explicit TrackedT(Fresh, bool payload, uint64_t h) : vid(reg().next_vid++), payload(payload), h(h) { born(); }
    TrackedT(TrackedT&& o) noexcept : vid(o.vid), moved_from(o.moved_from), payload(o.payload), h(o.h) { o.moved_from = true; reg().moves++; born(); }
    TrackedT& operator=(TrackedT&& o) noexcept { vid = o.vid; moved_from = o.moved_from; payload = o.payload; h = o.h; o.moved_from = true; reg().moves++; return *this; }
    TrackedT(const TrackedT&) = delete;
    TrackedT& operator=(const TrackedT&) = delete;
    ~TrackedT() { reg().destructions++; if (!reg().live.erase(this)) reg().destroy_unknown = true; }
private:
    void born() { reg().constructions++; reg().live.insert(this); }
};
using Payload = TrackedT<true>;                  // term payloads (term_value<> copies its payload once when it is built)

struct ArgSeen { long vid; bool moved_from; bool rvalue; bool is_term; bool is_err; bool unexpected; uint64_t h; };
struct Call { int slot; std::vector<ArgSeen> args; long result_vid; uint64_t value; };
struct Log { std::vector<Call> calls; long term_calls = 0; void clear() { calls.clear(); term_calls = 0; } };
inline thread_local Log* g_log = nullptr;

template<int T>
struct TermF
{
    Payload operator()(std::string_view sv) const
    {
        if (g_log) g_log->term_calls++;
        return Payload(Fresh{}, true, ref::term_value_hash(T, std::string(sv)));
    }
};

template<class NV>
struct Obs
{
    template<class A> static ArgSeen see(A&& a)
    {
        using D = std::decay_t<A>;
        constexpr bool rv = !std::is_lvalue_reference_v<A>;
        if constexpr (std::is_same_v<D, NV>) { ArgSeen s{a.vid, a.moved_from, rv, false, false, false, a.h}; NV taken(std::move(a)); (void)taken; return s; }   // the functor consumes its argument
        else if constexpr (std::is_same_v<D, ctpg::term_value<Payload>>) { return ArgSeen{a.get_value().vid, a.get_value().moved_from, rv, true, false, false, a.get_value().h}; }
        else if constexpr (std::is_same_v<D, ctpg::no_type>) return ArgSeen{0, false, rv, false, true, false, ref::ERROR_VALUE_HASH};
        else return ArgSeen{-1, false, rv, false, false, true, 0};
    }
};

template<int R, class NV>
struct KF
{
    template<class... A>
    NV operator()(A&&... a) const
    {
        Call c; c.slot = R;
        (c.args.push_back(Obs<NV>::see(std::forward<A>(a))), ...);
        std::vector<uint64_t> kids; for (auto& x : c.args) kids.push_back(x.h);
        c.value = ref::rule_value_hash(R, kids);
        NV res(Fresh{}, false, c.value);
        c.result_vid = res.vid;
        if (g_log) g_log->calls.push_back(c);
        return res;
    }
};

// contextual variant ('>>=' rules): the first argument is the context (no_type with plain parse())
template<int R, class NV>
struct KFC
{
    template<class C, class... A>
    NV operator()(C&&, A&&... a) const
    {
        Call c; c.slot = R;
        (c.args.push_back(Obs<NV>::see(std::forward<A>(a))), ...);
        std::vector<uint64_t> kids; for (auto& x : c.args) kids.push_back(x.h);
        c.value = ref::rule_value_hash(R, kids);
        NV res(Fresh{}, false, c.value);
        c.result_vid = res.vid;
        if (g_log) g_log->calls.push_back(c);
        return res;
    }
};

// slot patterns: t term, n nonterminal, e error ; kind f (functor) or d (no functor: left side constructed from the single nonterminal value)
inline const std::vector<tpl::SlotInfo>& tk_slots()
{
    static const std::vector<tpl::SlotInfo> s = []
    {
        const char* spec[] = {
            "tn f", "t f", "ntn c", " f", "n d", "nt c", "ne f", "tnt f", "n f", "nn c", " f", "net f",
            "t f", "tt c", "e f", "nnt f", "n d", "tn c", " c", "et f", "ntn f", "t f", "nn c", "nt f", "tnn c", "n c", "nnn f", "tne f"};
        std::vector<tpl::SlotInfo> v;
        for (const char* sp : spec)
        {
            tpl::SlotInfo si; const char* q = sp;
            while (*q != ' ') { si.pattern.push_back(*q == 'e' ? 1 : *q == 't' ? 2 : 3); ++q; }
            si.kind = q[1];
            v.push_back(si);
        }
        return v;
    }();
    return s;
}

template<class NV>
auto make_tk()
{
    using namespace ctpg;
    constexpr nterm<NV> n0("N0"), n1("N1"), n2("N2"), n3("N3"), n4("N4"), n5("N5"), park("PARK");
    auto ta = typed_term(char_term('a'), TermF<0>{});
    auto tb = typed_term(char_term('b'), TermF<1>{});
    auto tc = typed_term(char_term('c'), TermF<2>{});
    auto td = typed_term(char_term('d'), TermF<3>{});
    auto te = typed_term(char_term('e'), TermF<4>{});
    auto tf = typed_term(char_term('f'), TermF<5>{});
    return parser(
        n0,
        terms(ta, tb, tc, td, te, tf),
        nterms(n0, n1, n2, n3, n4, n5, park),
        rules(
            park(ta, n0) >= KF<0, NV>{},
            n0(ta) >= KF<1, NV>{},
            park(n0, ta, n0) >>= KFC<2, NV>{},
            park() >= KF<3, NV>{},
            park(n0),
            park(n0, ta) >>= KFC<5, NV>{},
            park(n0, error) >= KF<6, NV>{},
            park(ta, n0, ta) >= KF<7, NV>{},
            park(n0) >= KF<8, NV>{},
            park(n0, n0) >>= KFC<9, NV>{},
            park() >= KF<10, NV>{},
            park(n0, error, ta) >= KF<11, NV>{},
            park(ta) >= KF<12, NV>{},
            park(ta, ta) >>= KFC<13, NV>{},
            park(error) >= KF<14, NV>{},
            park(n0, n0, ta) >= KF<15, NV>{},
            park(n0),
            park(ta, n0) >>= KFC<17, NV>{},
            park() >>= KFC<18, NV>{},
            park(error, ta) >= KF<19, NV>{},
            park(n0, ta, n0) >= KF<20, NV>{},
            park(ta) >= KF<21, NV>{},
            park(n0, n0) >>= KFC<22, NV>{},
            park(n0, ta) >= KF<23, NV>{},
            park(ta, n0, n0) >>= KFC<24, NV>{},
            park(n0) >>= KFC<25, NV>{},
            park(n0, n0, n0) >= KF<26, NV>{},
            park(ta, n0, error) >= KF<27, NV>{}
        ),
        use_generated_lexer{},
        tpl::small_limits{}
    );
}

template<class NV>
struct TK
{
    using value = NV;
    using parser_type = decltype(make_tk<NV>());
    static const char* name() { return std::is_copy_constructible_v<NV> ? "TKc" : "TKm"; }
    static const std::vector<tpl::SlotInfo>& slots() { return tk_slots(); }
    static parser_type* instance()
    {
        static parser_type* p = [] { parser_type* r = nullptr; eng::on_big_stack([&] { r = new parser_type(make_tk<NV>()); }); return r; }();
        return p;
    }
    static int dsl_prec(bool has, int prec)
    {
        constexpr ctpg::nterm<NV> n0("N0");
        if (has) return n0('a')[prec].get_precedence();
        return n0('a').get_precedence();
    }
    static std::pair<int, int> dsl_term(int which, int prec, int assoc)
    {
        auto t = ctpg::typed_term(ctpg::char_term(char('a' + which % 6), prec, ctpg::associativity(assoc)), TermF<0>{});
        return {t.get_precedence(), int(t.get_associativity())};
    }
};
}

// Engine E4 (C06): libFuzzer targets with the semantic oracle inside the target.
//   FUZZ_TARGET = json | expr | tokens | pattern | match
// Every input is parsed through four buffer kinds (NUL-terminated exact heap block with the cstring_buffer layout, string_buffer,
// string_view_buffer over an exact heap copy, checked user buffer whose iterator throws outside [begin,end]); results and messages must agree,
// nothing may throw, the number of dereferences must stay linear in the input length; ASan/UBSan and the cvector bounds monitor are on.
#include "common/access.hpp"
#include "common/buffers.hpp"
#include "common/ref_regex.hpp"
#include "common/bugmodel_merge.hpp"
#include <sstream>
#include <unordered_set>
#include <cstdlib>
#include <unistd.h>

using namespace ctpg;
using namespace ctpg::buffers;
using namespace ctpg::ftors;

// ------------------------------------------------------------------------------------------------- parsers (compile-time constructed, as users do)
namespace P
{
constexpr nterm<int> js_value("value"), js_object("object"), js_array("array"), js_members("members"), js_elements("elements"), js_member("member");
constexpr char number_pattern[] = R"_(\-?(0|[1-9][0-9]*)(\.[0-9]+)?((e|E)(\+|\-)?[0-9]+)?)_";
constexpr char string_pattern[] = R"_("([^\\"\x00-\x1F]|\\[\\"/bfnrt]|\\u[0-9A-Fa-f]{4})*")_";
constexpr regex_term<number_pattern> js_number("number");
constexpr regex_term<string_pattern> js_string("string");
struct one { template<class... A> constexpr int operator()(A&&...) const { return 1; } };
struct add13 { constexpr int operator()(int a, skip, int b) const { return a + b; } };
constexpr parser json(
    js_value,
    terms(js_number, js_string, "true", "false", "null", '{', '}', '[', ']', ',', ':'),
    nterms(js_value, js_object, js_array, js_members, js_elements, js_member),
    rules(
        js_value(js_number) >= one{}, js_value(js_string) >= one{}, js_value("true") >= one{}, js_value("false") >= one{}, js_value("null") >= one{},
        js_value(js_object) >= [](int x) { return x + 1; }, js_value(js_array) >= [](int x) { return x + 1; },
        js_object('{', '}') >= one{}, js_object('{', js_members, '}') >= _e2,
        js_members(js_member), js_members(js_members, ',', js_member) >= add13{},
        js_member(js_string, ':', js_value) >= _e3,
        js_array('[', ']') >= one{}, js_array('[', js_elements, ']') >= _e2,
        js_elements(js_value), js_elements(js_elements, ',', js_value) >= add13{}
    )
);

constexpr nterm<int> expr("expr");
constexpr char num_pattern[] = "[1-9][0-9]*";
constexpr regex_term<num_pattern> number("number");
constexpr char_term o_plus('+', 1, associativity::ltor), o_minus('-', 1, associativity::ltor), o_mul('*', 2, associativity::ltor), o_div('/', 2, associativity::ltor);
struct binop { constexpr int operator()(int a, char op, int b) const { long long x = a, y = b; long long r = op == '+' ? x + y : op == '-' ? x - y : op == '*' ? x * y : (y == 0 ? 0 : x / y); return int(r % 100003); } };
constexpr parser expression(
    expr,
    terms(number, o_plus, o_minus, o_mul, o_div, '(', ')'),
    nterms(expr),
    rules(
        expr(expr, '+', expr) >= binop{}, expr(expr, '-', expr) >= binop{}, expr(expr, '*', expr) >= binop{}, expr(expr, '/', expr) >= binop{},
        expr('-', expr)[3] >= [](char, int x) { return -x; },
        expr('(', expr, ')') >= _e2,
        expr(number) >= [](std::string_view sv) { int v = 0; for (char c : sv) v = (v * 10 + (c - '0')) % 100003; return v; }
    )
);

constexpr nterm<int> toks("toks"), stmt("stmt");
constexpr char id_pattern[] = "[a-zA-Z_][a-zA-Z_0-9]*";
constexpr char int_pattern[] = "[0-9]+";
constexpr char flt_pattern[] = R"([0-9]+\.[0-9]+)";
constexpr char str_pattern[] = R"("[^"]*")";
constexpr char cmt_pattern[] = R"(#[^\x0a]*)";
constexpr regex_term<id_pattern> t_id("id");
constexpr regex_term<int_pattern> t_int("int");
constexpr regex_term<flt_pattern> t_flt("float");
constexpr regex_term<str_pattern> t_str("str");
constexpr regex_term<cmt_pattern> t_cmt("comment");
constexpr parser tokens(
    toks,
    terms("if", "in", t_id, t_flt, t_int, t_str, t_cmt, "<=", "<<", '<', '=', ';'),
    nterms(toks, stmt),
    rules(
        toks() >= val(0),
        toks(toks, stmt, ';') >= [](int a, int b, skip) { return a + b; },
        toks(toks, error, ';') >= _e1,
        stmt(stmt, t_id) >= [](int a, skip) { return a + 1; }, stmt(stmt, t_int) >= [](int a, skip) { return a + 2; }, stmt(stmt, t_flt) >= [](int a, skip) { return a + 3; },
        stmt(stmt, t_str) >= [](int a, skip) { return a + 4; }, stmt(stmt, t_cmt) >= [](int a, skip) { return a + 5; }, stmt(stmt, "if") >= [](int a, skip) { return a + 6; },
        stmt(stmt, "in") >= [](int a, skip) { return a + 7; }, stmt(stmt, "<=") >= [](int a, skip) { return a + 8; }, stmt(stmt, "<<") >= [](int a, skip) { return a + 9; },
        stmt(stmt, '<') >= [](int a, skip) { return a + 10; }, stmt(stmt, '=') >= [](int a, skip) { return a + 11; },
        stmt(t_id) >= val(1), stmt(t_int) >= val(2)
    )
);

// nesting with empty rules at several stack offsets (values per level: '[' 2, '(' 2, '{' 3), for the structure-aware `nest` target
constexpr nterm<int> n_value("value"), n_elements("elements"), n_opt("opt"), n_opt2("opt2");
constexpr char n_num_pattern[] = "[0-9]+";
constexpr regex_term<n_num_pattern> n_number("number");
constexpr int NEST_MOD = 1000003;
constexpr parser nest(
    n_value,
    terms(n_number, '[', ']', '(', ')', '{', '}', ',', ';'),
    nterms(n_value, n_elements, n_opt, n_opt2),
    rules(
        n_value(n_number) >= [](std::string_view sv) { return int(sv.size() * 10 + size_t(sv.back() - '0')); },
        n_value('[', n_elements, ']') >= [](skip, int e, skip) { return (e + 1) % NEST_MOD; },
        n_value('(', n_opt, n_value, ')') >= [](skip, int o, int v, skip) { return int((2LL * v + o) % NEST_MOD); },
        n_value('{', n_opt, n_opt2, n_value, '}') >= [](skip, int o, int o2, int v, skip) { return int((3LL * v + o + 2 * o2) % NEST_MOD); },
        n_elements() >= val(0),
        n_elements(n_elements, n_value) >= [](int e, int v) { return int((5LL * e + v) % NEST_MOD); },
        n_opt() >= val(0), n_opt(',') >= val(1),
        n_opt2() >= val(0), n_opt2(';') >= val(1)
    )
);

// statements with a right-recursive error rule and a nullable list: several recoveries can be alive on the stack at once, which is what fills the fixed
// stacks of a cstring_buffer<N> parse to the last slot (for the `cstr` target)
constexpr nterm<int> c_stmt("stmt"), c_stmts("stmts");
constexpr parser rec(
    c_stmt,
    terms('i', '(', ')', '{', '}', 'x', ';'),
    nterms(c_stmt, c_stmts),
    rules(
        c_stmt('x', ';') >= val(1),
        c_stmt('i', '(', 'x', ')', c_stmt) >= [](skip, skip, skip, skip, int s) { return (2 * s + 1) % 100003; },
        c_stmt('i', '(', error, ')', c_stmt) >= [](skip, skip, skip, skip, int s) { return (3 * s + 2) % 100003; },
        c_stmt('{', c_stmts, '}') >= [](skip, int s, skip) { return (s + 7) % 100003; },
        c_stmt(error, ';') >= val(9),          // reachable from several states with the same lookaheads: their error shifts lead to ONE target state
        c_stmts() >= val(0),
        c_stmts(c_stmts, c_stmt) >= [](int a, int b) { return (5 * a + b) % 100003; }
    )
);

// standalone matchers
constexpr char m0[] = "[1-9][0-9]*"; constexpr char m1[] = "(a|b)*"; constexpr char m2[] = "a|bc*"; constexpr char m3[] = "[a-zA-Z_][a-zA-Z_0-9]*";
constexpr char m4[] = "a{5}"; constexpr char m5[] = "[^a-z]"; constexpr char m6[] = "."; constexpr char m7[] = R"(\x00|\xff)"; constexpr char m8[] = "0|[1-9][0-9]*";
constexpr char m9[] = "a*b|a*"; constexpr char m10[] = "ab"; constexpr char m11[] = R"("([^\\"]|\\.)*")"; constexpr char m12[] = "(ab|cd)+e?"; constexpr char m13[] = "[--Z-]";
constexpr char m14[] = "[0-9]+ [a-z]+"; constexpr char m15[] = R"("[\x20-\x21\x23-\xff]*")"; constexpr char m16[] = R"([\x7e-\x81]+x{2})"; constexpr char m17[] = R"(\x2b\x3D= =)";
constexpr char m18[] = "(ab|c){3}d"; constexpr char m19[] = "[0-9]{4}(-[0-9]{2}){2}";        // a repeated GROUP (inner states have transitions of their own)
constexpr regex::expr<m0> r0; constexpr regex::expr<m1> r1; constexpr regex::expr<m2> r2; constexpr regex::expr<m3> r3; constexpr regex::expr<m4> r4; constexpr regex::expr<m5> r5; constexpr regex::expr<m6> r6;
constexpr regex::expr<m7> r7; constexpr regex::expr<m8> r8; constexpr regex::expr<m9> r9; constexpr regex::expr<m10> r10; constexpr regex::expr<m11> r11; constexpr regex::expr<m12> r12; constexpr regex::expr<m13> r13;
constexpr regex::expr<m14> r14; constexpr regex::expr<m15> r15; constexpr regex::expr<m16> r16; constexpr regex::expr<m17> r17; constexpr regex::expr<m18> r18; constexpr regex::expr<m19> r19;
}

// ------------------------------------------------------------------------------------------------- statistics
struct FStats
{
    unsigned long execs = 0, nontrivial_dups = 0;
    std::unordered_set<uint64_t> nontrivial;
    std::map<std::string, unsigned long> labels;
    std::vector<std::string> samples;
    std::string path;
    void flush()
    {
        if (path.empty()) return;
        vj::Value o = vj::Value::object(); o.set("evaluations", execs); o.set("nontrivial_count", (unsigned long long)nontrivial.size());
        vj::Value l = vj::Value::object(); for (auto& kv : labels) l.set(kv.first, kv.second); o.set("labels", l);
        vj::Value s = vj::Value::array(); for (auto& x : samples) { vj::Value y = vj::Value::object(); y.set("input_hex", vj::hex(x)); y.set("input", x); s.push(y); } o.set("samples", s);
        vj::save(path, o);
        std::vector<uint64_t> hs(nontrivial.begin(), nontrivial.end());
        eng::write_file(path + ".hashes", hs.data(), hs.size() * sizeof(uint64_t));
    }
};
static FStats& fstats() { static FStats s; return s; }
static std::string& target() { static std::string t; return t; }

[[noreturn]] static void violation(const std::string& what, const std::string& input)
{
    fprintf(stderr, "\nFUZZ-VIOLATION: %s\ninput_bytes=%zu input_hex=%s%s\n", what.c_str(), input.size(), vj::hex(input.substr(0, 600)).c_str(), input.size() > 600 ? "..." : "");
    fstats().flush();
    __builtin_trap();
}

struct Out { bool has = false; long value = 0; std::string err; bool threw = false; std::string exc; size_t derefs = 0; };

template<class Parser, class Buffer>
static Out run_one(const Parser& p, const Buffer& b, parse_options opts)
{
    Out o; std::ostringstream os;
    try { auto r = p.parse(opts, b, os); o.has = r.has_value(); if (o.has) o.value = long(r.value()); }
    catch (const std::exception& e) { o.threw = true; o.exc = e.what(); }
    o.err = os.str();
    return o;
}

template<size_t N> static Out cstr_run_n(const std::string& text, parse_options opts)
{
    // the array is exactly N + 1 bytes on the heap so that reads past it are visible to ASan
    std::unique_ptr<char[]> arr(new char[N + 1]); for (size_t i = 0; i < N; ++i) arr[i] = text[i]; arr[N] = 0;
    return run_one(P::rec, cstring_buffer<N + 1>(*reinterpret_cast<const char(*)[N + 1]>(arr.get())), opts);
}
template<size_t N> static Out cstr_run(const std::string& text, parse_options opts)
{
    if constexpr (N > 28) { (void)text; (void)opts; return Out{}; }
    else { if (text.size() == N || (N == 1 && text.empty())) return text.empty() ? run_one(P::rec, cstring_buffer<1>(""), opts) : cstr_run_n<N>(text, opts); return cstr_run<N + 1>(text, opts); }
}

template<class Parser>
static Out differential(const Parser& p, const std::string& in, unsigned optbits)
{
    parse_options opts; opts.set_skip_whitespace(!(optbits & 1)).set_skip_newline(!(optbits & 2)).set_verbose((optbits & 4) != 0);
    std::unique_ptr<char[]> exact(new char[in.size() ? in.size() : 1]); std::memcpy(exact.get(), in.data(), in.size());
    Out a = run_one(p, string_view_buffer(std::string_view(exact.get(), in.size())), opts);
    // a string_buffer is a value: the parse runs on a copy of a moved buffer whose originals have been overwritten and destroyed
    auto* sb0 = new string_buffer(std::string(in)); auto* sb1 = new string_buffer(std::move(*sb0)); string_buffer sb2(*sb1);
    *sb0 = string_buffer("#overwritten#"); *sb1 = string_buffer("#overwritten-too#-----------------------------"); delete sb0; delete sb1;
    Out b = run_one(p, sb2, opts);
    vb::HeapCBuffer hb(in);
    Out c = run_one(p, hb, opts);
    vb::CheckedBuffer cb(in);
    Out d = run_one(p, cb, opts); d.derefs = cb.derefs;
    const Out* all[] = {&a, &b, &c, &d}; const char* names[] = {"string_view_buffer", "string_buffer", "cstring-layout heap buffer", "checked user buffer"};
    for (int i = 0; i < 4; ++i) if (all[i]->threw) violation(std::string("parse threw with ") + names[i] + ": " + all[i]->exc, in);
    for (int i = 1; i < 4; ++i) if (all[i]->has != a.has || all[i]->value != a.value || all[i]->err != a.err) violation(std::string("result depends on the buffer kind: string_view_buffer vs ") + names[i], in);
    if (d.derefs > 64 * (in.size() + 1)) violation("number of buffer dereferences is not linear in the input length (no progress?)", in);
    // accounting: non-trivial = the parse got past >= 3 terms (approximated by the error position / success on an input with >= 3 non-space bytes)
    size_t nonspace = 0; for (unsigned char ch : in) if (ch > 32) ++nonspace;
    bool nontriv = false;
    if (a.has && nonspace >= 3) nontriv = true;
    if (!a.has) { int l = 0, col = 0; size_t pe = a.err.rfind("\n[", a.err.size() >= 2 ? a.err.size() - 2 : 0); const char* last = pe == std::string::npos ? a.err.c_str() : a.err.c_str() + pe + 1; if (sscanf(last, "[%d:%d]", &l, &col) == 2 && (l > 1 || col > 3)) nontriv = true; }
    if (optbits & 4) fstats().labels["verbose"]++;
    FStats& st = fstats();
    if (nontriv)
    {
        if (st.nontrivial.size() < 3000000 && st.nontrivial.insert(eng::hcomb(eng::hstr(in), optbits)).second)
        {
            st.labels[a.has ? "accepted" : (a.err.find("Unexpected character") != std::string::npos ? "lexical-failure" : "syntax-failure")]++;
            if (in.find('\0') != std::string::npos) st.labels["has-NUL"]++;
            bool hi = false; for (unsigned char ch : in) if (ch >= 0x80) hi = true; if (hi) st.labels["has-byte>=0x80"]++;
            if (in.size() >= 4096) st.labels["long>=4KiB"]++;
            if (a.err.find("\n[") != std::string::npos) st.labels["several-messages(recovery)"]++;
            if (st.samples.size() < 4 && in.size() < 200) st.samples.push_back(in);
        }
    }
    else if (nonspace == 0) st.labels["whitespace-only-or-empty"]++;
    return a;
}

// independent evaluator for the `nest` language (explicit stack, no LR machinery)
struct NestRef { bool ok = false; long value = 0; size_t max_depth = 0; };
static NestRef nest_ref(const std::string& in, bool skip_ws, bool skip_nl)
{
    NestRef R; const long MOD = P::NEST_MOD;
    struct Fr { char kind; long acc; int o1, o2; int stage; };   // stage: 0 after open, 1 after opt, 2 after opt2, 3 have value
    std::vector<Fr> st; bool done = false; long result = 0;
    auto can_value = [&] { if (st.empty()) return !done; const Fr& f = st.back(); return f.kind == '[' || f.stage < 3; };
    auto push_value = [&](long v) { if (st.empty()) { done = true; result = v; return; } Fr& f = st.back(); if (f.kind == '[') f.acc = (5 * f.acc + v) % MOD; else { f.acc = v; f.stage = 3; } };
    for (size_t i = 0; i < in.size();)
    {
        unsigned char c = (unsigned char)in[i];
        if (skip_ws && (c == 9 || c == 11 || c == 12 || c == 13 || c == 32 || (c == 10 && skip_nl))) { ++i; continue; }
        if (c >= '0' && c <= '9') { size_t j = i; while (j < in.size() && in[j] >= '0' && in[j] <= '9') ++j; if (!can_value()) return R; push_value(long(j - i) * 10 + (in[j - 1] - '0')); i = j; continue; }
        ++i;
        switch (c)
        {
        case '[': case '(': case '{': if (!can_value()) return R; st.push_back(Fr{char(c), 0, 0, 0, 0}); R.max_depth = std::max(R.max_depth, st.size()); break;
        case ',': if (st.empty() || st.back().kind == '[' || st.back().stage != 0) return R; st.back().o1 = 1; st.back().stage = 1; break;
        case ';': if (st.empty() || st.back().kind != '{' || st.back().stage > 1) return R; st.back().o2 = 1; st.back().stage = 2; break;
        case ']': { if (st.empty() || st.back().kind != '[') return R; long v = (st.back().acc + 1) % MOD; st.pop_back(); push_value(v); break; }
        case ')': { if (st.empty() || st.back().kind != '(' || st.back().stage != 3) return R; long v = (2 * st.back().acc + st.back().o1) % MOD; st.pop_back(); push_value(v); break; }
        case '}': { if (st.empty() || st.back().kind != '{' || st.back().stage != 3) return R; long v = (3 * st.back().acc + st.back().o1 + 2 * st.back().o2) % MOD; st.pop_back(); push_value(v); break; }
        default: return R;
        }
    }
    if (done && st.empty()) { R.ok = true; R.value = result; }
    return R;
}

// reference automata for the compiled patterns of the `match` target (built once at start-up); a pattern whose pinned construction is
// known to differ from the reference (finding F5) is compared with the model of that construction instead
struct MatchRef { rx::Dfa dfa; bool uses_model = false; };
static const char* const match_patterns[20] = {P::m0, P::m1, P::m2, P::m3, P::m4, P::m5, P::m6, P::m7, P::m8, P::m9, P::m10, P::m11, P::m12, P::m13, P::m14, P::m15, P::m16, P::m17, P::m18, P::m19};
static std::vector<MatchRef>& match_refs()
{
    static std::vector<MatchRef> v = []
    {
        std::vector<MatchRef> r;
        for (const char* pat : match_patterns)
        {
            MatchRef m; rx::Parsed p = rx::parse_pattern(pat);
            if (!p.ok || !rx::ast_to_dfa(p.ast, m.dfa)) { fprintf(stderr, "reference cannot parse %s\n", pat); abort(); }
            bm::Builder b(4096); bm::Slice whole = b.build(p.ast, p.ast.root); b.mark_end_states(whole, 0);
            rx::Dfa md; b.to_dfa(md); std::string w;
            if (!rx::equivalent(m.dfa, md, w)) { m.dfa = md; m.uses_model = true; }
            r.push_back(m);
        }
        return r;
    }();
    return v;
}

template<class E>
static void match_one(const E& e, const std::string& in, bool verbose, size_t which)
{
    std::unique_ptr<char[]> exact(new char[in.size() ? in.size() : 1]); std::memcpy(exact.get(), in.data(), in.size());
    std::ostringstream o1, o2, o3;
    bool a, b, c;
    match_options mo; mo.set_verbose(verbose);
    try
    {
        a = e.match(mo, string_view_buffer(std::string_view(exact.get(), in.size())), o1);
        { auto* sb0 = new string_buffer(std::string(in)); auto* sb1 = new string_buffer(std::move(*sb0)); string_buffer sb2(*sb1); *sb0 = string_buffer("#overwritten#"); delete sb0; delete sb1; b = e.match(mo, sb2, o2); }
        vb::CheckedBuffer cb(in);
        c = e.match(mo, cb, o3);
    }
    catch (const std::exception& ex) { violation(std::string("regex matcher threw / stepped outside the buffer: ") + ex.what(), in); }
    if (a != b || a != c || o1.str() != o2.str() || o1.str() != o3.str()) violation("regex matcher result or output depends on the buffer kind", in);
    {
        const MatchRef& mr = match_refs()[which];
        bool want = rx::dfa_run(mr.dfa, in) == 0;
        if (a != want) violation(std::string("regex::expr<\"") + match_patterns[which] + "\">::match " + (a ? "accepts a string outside" : "rejects a string of") + " the pattern's language" + (mr.uses_model ? " (relative to the model of the pinned construction)" : ""), in);
        if (mr.uses_model) fstats().labels["pattern-compared-with-F5-model"]++;
    }
    FStats& st = fstats();
    if (in.size() >= 2 && st.nontrivial.size() < 3000000 && st.nontrivial.insert(eng::hstr(in)).second) { st.labels[a ? "match" : "no-match"]++; if (st.samples.size() < 4 && in.size() < 100) st.samples.push_back(in); }
}

extern "C" int LLVMFuzzerInitialize(int*, char***)
{
    const char* t = getenv("FUZZ_TARGET"); target() = t ? t : "json";
    const char* s = getenv("FUZZ_STATS"); if (s) fstats().path = s;
    atexit([] { fstats().flush(); });
    return 0;
}

extern "C" int LLVMFuzzerTestOneInput(const uint8_t* data, size_t size)
{
    // nothing in ctpg is global mutable state: there is nothing to reset between iterations
    fstats().execs++;
    if (size == 0) return 0;
    unsigned sel = data[0];
    std::string in(reinterpret_cast<const char*>(data + 1), size - 1);
    const std::string& t = target();
    if (t == "json") differential(P::json, in, sel & 7);
    else if (t == "expr") differential(P::expression, in, sel & 7);
    else if (t == "tokens") differential(P::tokens, in, sel & 7);
    else if (t == "nest")
    {
        // structure-aware decode: text = P A^K M B^K S  (K up to 2999; pieces of up to 7 bytes cut from the body), so that short inputs reach
        // stack depths beyond the std::vector reservations (1024, 2048, 4096 entries) with every alignment of the empty reductions
        std::string text;
        if (size >= 5)
        {
            size_t K = (size_t(data[1]) | size_t(data[2]) << 8) % 3000; if (sel & 8) K *= 4;
            size_t lp = data[3] & 7, la = (data[3] >> 3) & 7, lm = data[4] & 7, lb = (data[4] >> 3) & 7;
            std::string body(reinterpret_cast<const char*>(data + 5), size - 5);
            auto cut = [&](size_t n) { std::string r = body.substr(0, std::min(n, body.size())); body.erase(0, r.size()); return r; };
            std::string Pp = cut(lp), A = cut(la), M = cut(lm), B = cut(lb), S = body;
            const size_t cap = (sel & 8) ? 72000 : 16000;   // with bit 3 the text passes the 64 KiB mark (16-bit offsets)
            if ((A.size() + B.size()) * K > cap) K = cap / (A.size() + B.size());
            text = Pp; for (size_t i = 0; i < K; ++i) text += A; text += M; for (size_t i = 0; i < K; ++i) text += B; text += S;
        }
        else text = in;
        Out a = differential(P::nest, text, sel & 7);
        NestRef r = nest_ref(text, !(sel & 1), !(sel & 2));
        if (a.has != r.ok) violation(std::string("nest parser ") + (a.has ? "accepts an input outside" : "rejects an input of") + " its language", text);
        if (a.has && a.value != r.value) violation("nest parser returns a value that differs from the independent evaluation", text);
        FStats& st = fstats();
        if (r.max_depth >= 1024) st.labels["nesting-depth>=1024"]++; else if (r.max_depth >= 341) st.labels["nesting-depth>=341"]++;
        if (a.has && r.max_depth >= 341) st.labels["accepted-deep"]++;
        if (text.size() > 65536) st.labels[a.has ? "accepted-longer-than-64KiB" : "longer-than-64KiB"]++;
    }
    else if (t == "cstr")
    {
        // bytes -> a short text over the grammar's alphabet; parsed through string_buffer (growing stacks) and through cstring_buffer<N> (fixed stacks of
        // N + EmptyRulesCount + 1 entries). A fixed stack that is too small must end the parse with the capacity exception (a clean failure; that inputs in the
        // language can run into it is known finding F11), never with a write past the stack (UBSan/ASan) or a different result.
        std::string text; for (size_t i = 1; i < size && text.size() < 28; ++i) text += "i(){}x; i(x"[data[i] % 11];
        parse_options opts; opts.set_skip_whitespace(!(sel & 1));
        Out a = run_one(P::rec, string_buffer(std::string(text)), opts);
        Out c = cstr_run<1>(text, opts);
        FStats& st = fstats();
        if (c.threw)
        {
            if (c.exc.find("out of range") == std::string::npos) violation("cstring_buffer parse ended with an exception other than the capacity exception: " + c.exc, text);
            st.labels["cstring-capacity-exception"]++;
        }
        else
        {
            if (a.threw) violation("string_buffer parse threw: " + a.exc, text);
            if (a.has != c.has || (a.has && a.value != c.value) || a.err != c.err) violation("cstring_buffer and string_buffer parses of the same text differ (result or error stream)", text);
            if (!a.err.empty() && a.has) st.labels["recovered"]++;
        }
        if (std::count(a.err.begin(), a.err.end(), '\n') >= 2) st.labels["several-syntax-errors"]++;
        // non-trivial = the text has >= 4 terms and was either accepted or reported a syntax error beyond the second column
        if (text.size() >= 4 && st.nontrivial.size() < 3000000 && st.nontrivial.insert(eng::hcomb(eng::hstr(text), sel & 1)).second) { st.labels[c.threw ? "nt-capacity" : a.has ? "nt-accepted" : "nt-rejected"]++; if (st.samples.size() < 4) st.samples.push_back(text); }
    }
    else if (t == "match")
    {
        switch (sel % 20)
        {
        case 18: match_one(P::r18, in, (sel & 128) != 0, 18); break; case 19: match_one(P::r19, in, (sel & 128) != 0, 19); break;
        case 14: match_one(P::r14, in, (sel & 128) != 0, 14); break; case 15: match_one(P::r15, in, (sel & 128) != 0, 15); break; case 16: match_one(P::r16, in, (sel & 128) != 0, 16); break; case 17: match_one(P::r17, in, (sel & 128) != 0, 17); break;
        case 0: match_one(P::r0, in, (sel & 128) != 0, 0); break; case 1: match_one(P::r1, in, (sel & 128) != 0, 1); break; case 2: match_one(P::r2, in, (sel & 128) != 0, 2); break; case 3: match_one(P::r3, in, (sel & 128) != 0, 3); break;
        case 4: match_one(P::r4, in, (sel & 128) != 0, 4); break; case 5: match_one(P::r5, in, (sel & 128) != 0, 5); break; case 6: match_one(P::r6, in, (sel & 128) != 0, 6); break; case 7: match_one(P::r7, in, (sel & 128) != 0, 7); break;
        case 8: match_one(P::r8, in, (sel & 128) != 0, 8); break; case 9: match_one(P::r9, in, (sel & 128) != 0, 9); break; case 10: match_one(P::r10, in, (sel & 128) != 0, 10); break; case 11: match_one(P::r11, in, (sel & 128) != 0, 11); break;
        case 12: match_one(P::r12, in, (sel & 128) != 0, 12); break; default: match_one(P::r13, in, (sel & 128) != 0, 13); break;
        }
    }
    else if (t == "pattern")
    {
        // the pattern parser itself on arbitrary bytes, both construction contexts, inside an exactly sized NUL-terminated block
        static regex::dfa<512>* sm = new regex::dfa<512>();
        vb::HeapCBuffer buf(in); utils::no_stream ns;
        try
        {
            regex::dfa_size_analyzer an;
            auto r = regex::regex_parser::regex_parser_object.context_parse(an, parse_options{}.set_skip_whitespace(false), buf, ns);
            if (r.has_value() && r.value().n <= 512)
            {
                sm->clear(); regex::dfa_builder<512> bld(*sm);
                auto r2 = regex::regex_parser::regex_parser_object.context_parse(bld, parse_options{}.set_skip_whitespace(false), buf, ns);
                if (!r2.has_value()) violation("size analysis accepts a pattern that the builder refuses", in);
                if (sm->size() > r.value().n) violation("automaton needs more states than the analyzer predicted", in);
                FStats& st = fstats(); if (in.size() >= 3 && st.nontrivial.insert(eng::hstr(in)).second) { st.labels["accepted-pattern"]++; if (st.samples.size() < 4 && in.size() < 60) st.samples.push_back(in); }
            }
            else if (!r.has_value()) { FStats& st = fstats(); if (in.size() >= 3 && st.nontrivial.size() < 3000000 && st.nontrivial.insert(eng::hstr(in)).second) st.labels["refused-pattern"]++; }
        }
        catch (const ctpg_verif::bounds_violation& e) { violation(std::string("bounds monitor: ") + e.what(), in); }
        catch (const std::exception&) { /* loud refusal (e.g. capacity) is allowed */ }
    }
    return 0;
}

// Engine E2: the real pattern parser + dfa_builder driven at run time (DESIGN.md A.2).
// Properties: C03 (pattern language), C12a (automaton size prediction), C17a (malformed patterns).
#include "common/access.hpp"
#include "common/ref_regex.hpp"
#include "common/bugmodel_merge.hpp"
#include "common/buffers.hpp"

using eng::Choice; using eng::Stats; using eng::Verdict;

constexpr size_t CAP = 1024;
using RealDfa = ctpg::regex::dfa<CAP>;
static RealDfa& real_sm() { static RealDfa* p = new RealDfa(); return *p; }

template<class Ctx, class Buffer>
static std::optional<ctpg::utils::slice> drive(Ctx& ctx, const Buffer& buf)
{
    ctpg::utils::no_stream ns;
    return ctpg::regex::regex_parser::regex_parser_object.context_parse(ctx, ctpg::parse_options{}.set_skip_whitespace(false), buf, ns);
}

struct Built
{
    bool threw = false; std::string exc;
    bool accepted = false;          // the pattern parser returned a value
    size_t predicted = 0; bool predicted_ok = false;
    size_t used = 0;
    bool sized_by_library = false;
    rx::Dfa dfa;
};

// the real regex::analyze_dfa_size(const char (&)[N]) (= regex::expr<P>::dfa_size, regex_term<P>::dfa_size), instantiated per pattern length
constexpr size_t MAX_SIZED = 40;
template<size_t... I>
static bool real_size_impl(const std::string& pat, size_t& out, std::index_sequence<I...>)
{
    bool done = false;
    auto one = [&](auto ic)
    {
        constexpr size_t N = decltype(ic)::value + 2;      // pattern length + terminator
        if (done || pat.size() + 1 != N) return;
        char arr[N]; std::memcpy(arr, pat.data(), N - 1); arr[N - 1] = 0;
        const char (&ref)[N] = arr;
        out = ctpg::regex::analyze_dfa_size(ref); done = true;
    };
    (one(std::integral_constant<size_t, I>{}), ...);
    return done;
}
static bool real_analyze_dfa_size(const std::string& pat, size_t& out) { if (pat.empty() || pat.size() > MAX_SIZED || pat.find('\0') != std::string::npos) return false; return real_size_impl(pat, out, std::make_index_sequence<MAX_SIZED>{}); }

// what regex::expr<P>::expr() / analyze_dfa_size do, at run time
static Built build_real(const std::string& pat, bool want_dfa)
{
    Built b;
    vb::HeapCBuffer buf(pat);
    try
    {
        ctpg::regex::dfa_size_analyzer an;
        auto r = drive(an, buf);
        if (r.has_value()) { b.predicted_ok = true; b.predicted = r.value().n; }
        // patterns of up to MAX_SIZED bytes: the capacity is what the library's own sizing function says (it must agree with the pass above or be larger)
        size_t real = 0;
        if (r.has_value() && real_analyze_dfa_size(pat, real)) { b.sized_by_library = true; b.predicted = real; }
    }
    catch (const std::exception& e) { b.threw = true; b.exc = std::string("analyzer: ") + e.what(); return b; }
    if (b.predicted_ok && b.predicted > CAP) return b;
    try
    {
        RealDfa& sm = real_sm(); sm.clear();
        ctpg::regex::dfa_builder<CAP> bld(sm);
        auto r = drive(bld, buf);
        b.accepted = r.has_value();
        b.used = sm.size();
        if (r.has_value())
        {
            bld.mark_end_states(r.value(), 0);
            if (want_dfa)
            {
                b.dfa.tr.assign(sm.size(), {}); b.dfa.label.assign(sm.size(), -1);
                for (size_t i = 0; i < sm.size(); ++i)
                {
                    const auto& st = sm[i];
                    for (size_t c = 0; c < 256; ++c) { auto t = st.transitions[c]; b.dfa.tr[i][c] = t == ctpg::uninitialized16 ? -1 : int(t); }
                    b.dfa.label[i] = st.conflicted_recognition[0] == ctpg::uninitialized16 ? -1 : int(st.conflicted_recognition[0]);
                }
            }
        }
    }
    catch (const std::exception& e) { b.threw = true; b.exc = std::string("builder: ") + e.what(); }
    return b;
}

// acceptance exactly as regex::expr<P>::match computes it, on the automaton currently in real_sm()
static bool real_match(const std::string& s)
{
    ctpg::utils::no_stream ns;
    std::unique_ptr<char[]> exact(new char[s.size() ? s.size() : 1]); std::memcpy(exact.get(), s.data(), s.size());
    const char* b = exact.get(); const char* e = b + s.size();
    auto res = ctpg::regex::dfa_match(real_sm(), ctpg::match_options{}, ctpg::source_point{}, b, e, ns);
    return res.term_idx == 0 && res.len == s.size();
}

// -------------------------------------------------------------------------------------------------
// pattern generator (DESIGN.md C.5)
struct PG
{
    Choice& ch; std::vector<std::string> labels;
    explicit PG(Choice& ch) : ch(ch) {}
    static std::string esc_out(int c)
    {
        if (c < 0x20 || c > 0x7e) { char b[8]; snprintf(b, sizeof b, "\\x%02X", c); return b; }
        const char* sp = "*+?|(){}[].\\]^-";
        for (const char* q = sp; *q; ++q) if (*q == c) return std::string("\\") + char(c);
        return std::string(1, char(c));
    }
    static std::string esc_in(int c)
    {
        if (c < 0x20 || c > 0x7e) { char b[8]; snprintf(b, sizeof b, "\\x%02x", c); return b; }
        const char* sp = "]\\^-";
        for (const char* q = sp; *q; ++q) if (*q == c) return std::string("\\") + char(c);
        return std::string(1, char(c));
    }
    int alpha_char()
    {
        switch (ch.weighted({12, 3, 2, 1, 1}))
        {
        case 0: return "abc01"[ch.below(5)];
        case 1: return "abcdexyz0123456789_ ,;:=<>!\"'/#%&@~"[ch.below(35)];
        case 2: return "*+?|(){}[].\\]^-"[ch.below(15)];
        case 3: return int(ch.below(32));             // control characters, through \xHH
        default: return 0x7f + int(ch.below(129));    // >= 0x7f through \xHH
        }
    }
    std::string atom()
    {
        switch (ch.weighted({10, 3, 2, 1}))
        {
        case 0: { int c = alpha_char(); if (ch.chance(1, 24)) { char b[8]; snprintf(b, sizeof b, "\\x%02x", c); return b; } return esc_out(c); }
        case 1:
        {
            std::string s = "["; if (ch.chance(1, 3)) s += "^";
            int n = 1 + int(ch.below(3)); bool last_range = false;
            for (int i = 0; i < n; ++i)
            {
                int c1 = alpha_char();
                if (ch.chance(1, 2)) { int c2 = c1 + int(ch.below(6)); if (ch.chance(1, 8)) c2 = c1 + int(ch.below(uint32_t(256 - c1))); /* wide ranges, often across 0x7f/0x80 */ if (c2 > 255) c2 = 255; s += esc_in(c1) + "-" + esc_in(c2); last_range = true; }
                else { s += esc_in(c1); last_range = false; }
            }
            if (last_range && ch.chance(1, 6)) s += "-";            // "[--Z-]" form: a '-' closing the set after a range is literal
            labels.push_back("set");
            return s + "]";
        }
        case 2: labels.push_back("any"); return ".";
        default:
        {   // short hex forms pinned by the tests: \x (NUL) and \xH ; only where the next character cannot be taken for a hex digit
            labels.push_back("short-hex");
            if (ch.chance(1, 2)) return "(\\x)";
            char b[8]; snprintf(b, sizeof b, "(\\x%x)", int(ch.below(16))); return b;
        }
        }
    }
    // level: 0 alt, 1 cat, 2 quantified, 3 primary
    std::pair<std::string, int> gen(int depth)
    {
        uint32_t w = depth <= 0 ? 0 : uint32_t(ch.weighted({5, 4, 3, 5, 1}));
        switch (w)
        {
        case 0: return {atom(), 3};
        case 1:
        {
            int n = 2 + int(ch.below(2)); std::string s;
            for (int i = 0; i < n; ++i) { auto x = gen(depth - 1); s += x.second < 1 ? "(" + x.first + ")" : x.first; }
            return {s, 1};
        }
        case 2:
        {
            int n = 2 + int(ch.below(2)); std::string s;
            for (int i = 0; i < n; ++i) { auto x = gen(depth - 1); if (i) s += "|"; s += x.first; }
            labels.push_back("alt");
            return {s, 0};
        }
        case 3:
        {
            auto x = gen(depth - 1);
            std::string s = x.second < 3 ? "(" + x.first + ")" : x.first;
            switch (ch.weighted({3, 2, 2, 2}))
            {
            case 0: s += "*"; labels.push_back("star"); break;
            case 1: s += "+"; labels.push_back("plus"); break;
            case 2: s += "?"; labels.push_back("opt"); break;
            default: { int n = int(ch.weighted({1, 2, 4, 4, 2, 1, 1, 1, 1, 1, 1, 1, 1})); s += "{" + std::to_string(n) + "}"; labels.push_back("rep"); if (n == 0) labels.push_back("rep0"); break; }
            }
            return {s, 2};
        }
        default: { auto x = gen(depth - 1); return {"(" + x.first + ")", 3}; }
        }
    }
    std::string prim() { auto x = gen(1); return x.second < 3 ? "(" + x.first + ")" : x.first; }
    std::string pattern()
    {
        if (ch.chance(3, 10))
        {
            std::string r = prim(), s = prim(), t = prim();
            switch (ch.below(8))
            {
            case 0: labels.push_back("comp:r*r"); return r + "*" + r;
            case 1: labels.push_back("comp:r?r"); return r + "?" + r;
            case 2: labels.push_back("comp:(r|rs)t"); return "(" + r + "|" + r + s + ")" + t;
            case 3: labels.push_back("comp:(r*s){n}"); return "(" + r + "*" + s + "){" + std::to_string(ch.below(5)) + "}";
            case 4: labels.push_back("comp:(r|s)*rss"); return "(" + r + "|" + s + ")*" + r + s + s;
            case 5: labels.push_back("comp:r+r"); return r + "+" + r;
            case 6: labels.push_back("comp:(rs|r)(st|t)"); return "(" + r + s + "|" + r + ")(" + s + t + "|" + t + ")";
            default: labels.push_back("comp:r*s|r*"); return r + "*" + s + "|" + r + "*";
            }
        }
        return gen(1 + int(ch.below(4))).first;
    }
};

struct RCase { std::string pat; std::vector<std::string> labels; };
static vj::Value rcase_json(const RCase& c)
{
    vj::Value o = vj::Value::object(); o.set("kind", "regex"); o.set("pattern_hex", vj::hex(c.pat)); o.set("pattern", c.pat);
    rx::Parsed p = rx::parse_pattern(c.pat);
    o.set("class", p.cls == rx::VALID ? "VALID" : p.cls == rx::MALFORMED ? "MALFORMED" : "UNSPECIFIED");
    if (!p.why.empty()) o.set("why", p.why);
    if (p.ok) o.set("ast", p.ast.show());
    return o;
}
static RCase rcase_from(const vj::Value& v) { RCase c; c.pat = vj::unhex(v.at("pattern_hex").as_str()); return c; }

// structural shrinking on the pattern text: delete a character or a balanced group, keep only candidates of the same class
static std::vector<RCase> rcase_shrinks(const RCase& c, const vj::Value&)
{
    std::vector<RCase> out;
    rx::Class cls = rx::parse_pattern(c.pat).cls;
    std::set<std::string> seen;
    auto add = [&](const std::string& s) { if (s.size() < c.pat.size() && !seen.count(s) && rx::parse_pattern(s).cls == cls) { seen.insert(s); RCase d; d.pat = s; out.push_back(d); } };
    // replace a parenthesised group / the whole by one of its halves
    for (size_t i = 0; i < c.pat.size(); ++i)
        for (size_t len = c.pat.size() - i; len >= 1; --len) { if (len >= c.pat.size()) continue; std::string s = c.pat; s.erase(i, len); add(s); if (out.size() > 400) return out; }
    return out;
}

// -------------------------------------------------------------------------------------------------
struct P_C03
{
    using Case = RCase;
    static const char* id() { return "C03"; }
    static Case gen(Choice& ch) { PG g(ch); Case c; c.pat = g.pattern(); c.labels = g.labels; return c; }
    static vj::Value to_json(const Case& c) { return rcase_json(c); }
    static Case from_json(const vj::Value& v) { return rcase_from(v); }
    static std::vector<Case> shrinks(const Case& c, const vj::Value& d) { return rcase_shrinks(c, d); }
    static Verdict eval(const Case& c, Stats& st)
    {
        rx::Parsed p = rx::parse_pattern(c.pat);
        if (p.cls != rx::VALID) return Verdict::discard(std::string("generator-nonvalid:") + p.why);
        if (rx::construction_explodes(p.ast)) return Verdict::discard("nested-repetition-of-nullable-body(construction time)");
        rx::Dfa spec;
        if (!rx::ast_to_dfa(p.ast, spec)) return Verdict::discard("spec-too-big");
        Built b = build_real(c.pat, true);
        if (b.predicted_ok && b.predicted > CAP) return Verdict::discard("too-big-for-builder-capacity");
        vj::Value det = vj::Value::object(); det.set("pattern", c.pat); det.set("ast", p.ast.show());
        if (b.threw) { det.set("exception", b.exc); return Verdict::fail("construction threw for a pattern in the documented syntax", det); }
        if (!b.predicted_ok || !b.accepted) return Verdict::fail("pattern in the documented syntax was refused", det);
        std::string w; bool inconcl = false;
        bool eq = rx::equivalent(spec, b.dfa, w, 60000, &inconcl);
        if (inconcl) return Verdict::discard("comparison-too-big");
        bool nontrivial = p.ops >= 1 && (p.ops >= 2 || p.ast.nodes.size() >= 3);
        uint64_t h = eng::hstr(c.pat);
        auto account = [&](const char* verdict)
        {
            if (nontrivial && st.counting && st.nontriv(h))
            {
                st.label("nontrivial"); st.label(verdict);
                for (auto& l : c.labels) st.label(l);
                if (st.want_sample()) { vj::Value s = vj::Value::object(); s.set("pattern", c.pat); s.set("ast", p.ast.show()); s.set("spec_states", (unsigned long long)spec.size()); s.set("impl_states", (unsigned long long)b.dfa.size()); s.set("verdict", verdict); st.sample(s); }
            }
        };
        if (eq)
        {
            // the automata agree; what the matcher does with the match LENGTH is not visible there: for some patterns with an infinite language a member of
            // 65536 bytes or more (lengths around the 16-bit boundary and its multiples) goes through the real matcher
            if ((h % 16) == 0)
            {
                static const size_t targets[] = {65535, 65536, 65537, 70001, 131072, 196613};
                std::string lw;
                if (rx::long_member(spec, targets[(h >> 8) % 6], h >> 16, lw) && rx::dfa_run(spec, lw) == 0)
                {
                    st.sub_evaluations += st.counting ? 1 : 0;
                    if (!real_match(lw)) { det.set("member_bytes", (unsigned long long)lw.size()); det.set("member_prefix", lw.substr(0, 60)); return Verdict::fail("matcher rejects a long string of the pattern's language (" + std::to_string(lw.size()) + " bytes)", det); }
                    if (st.counting) st.label(lw.size() >= 65536 ? "long-member>=64KiB" : "long-member");
                }
            }
            account("impl==spec"); return Verdict::pass();
        }
        // confirm the distinguishing string on the real matcher and on the second reference
        bool spec_acc = rx::dfa_run(spec, w) == 0;
        int deriv3 = rx::Deriv(p.ast).match3(w);
        bool impl_acc = real_match(w);
        if (deriv3 < 0) st.count("second-opinion-gave-up(node budget)");
        else if (spec_acc != (deriv3 == 1)) { st.count("harness-disagreement"); return Verdict::discard("harness-disagreement"); }
        if (impl_acc == spec_acc) { st.count("witness-not-confirmed"); return Verdict::discard("witness-not-confirmed"); }
        det.set("witness_hex", vj::hex(w)); det.set("witness", w); det.set("spec_accepts", spec_acc); det.set("impl_accepts", impl_acc);
        // three-way classification against the model of the known construction defect
        bm::Builder m(CAP); bm::Slice whole = m.build(p.ast, p.ast.root);
        if (!m.overflow)
        {
            m.mark_end_states(whole, 0);
            rx::Dfa md; m.to_dfa(md);
            std::string w2;
            bool inc2 = false;
            bool same_as_model = rx::equivalent(md, b.dfa, w2, 60000, &inc2);
            if (inc2) return Verdict::discard("comparison-too-big");
            if (same_as_model && eng::args().is_known("F5")) { account("known:F5"); return Verdict::known("F5"); }
            det.set("same_as_model_of_pinned_construction", same_as_model);
            if (!same_as_model) { det.set("model_witness_hex", vj::hex(w2)); }
        }
        return Verdict::fail(spec_acc ? "matcher rejects a string of the pattern's language" : "matcher accepts a string outside the pattern's language", det);
    }
};

// -------------------------------------------------------------------------------------------------
struct P_C12a
{
    using Case = RCase;
    static const char* id() { return "C12a"; }
    static Case gen(Choice& ch)
    {
        PG g(ch); Case c;
        // bias towards repetitions, nested and with larger counts
        std::string r = g.prim();
        switch (ch.below(6))
        {
        case 0: c.pat = "(" + r + "{" + std::to_string(ch.below(6)) + "}){" + std::to_string(ch.below(8)) + "}"; break;
        case 1: c.pat = "((" + r + "|" + g.prim() + "){" + std::to_string(1 + ch.below(4)) + "}" + g.prim() + "){" + std::to_string(ch.below(6)) + "}"; break;
        case 2: c.pat = r + "{" + std::to_string(ch.below(40)) + "}" + g.prim() + "{" + std::to_string(ch.below(12)) + "}"; break;
        case 3: c.pat = "(" + r + "*" + g.prim() + "){" + std::to_string(ch.below(10)) + "}"; break;
        case 4: c.pat = "((" + r + "{2}){2}){" + std::to_string(ch.below(5)) + "}|" + g.prim(); break;
        default: c.pat = g.pattern(); break;
        }
        c.labels = g.labels;
        return c;
    }
    static vj::Value to_json(const Case& c) { return rcase_json(c); }
    static Case from_json(const vj::Value& v) { return rcase_from(v); }
    static std::vector<Case> shrinks(const Case& c, const vj::Value& d) { return rcase_shrinks(c, d); }
    static Verdict eval(const Case& c, Stats& st)
    {
        rx::Parsed p = rx::parse_pattern(c.pat);
        if (p.cls != rx::VALID) return Verdict::discard("generator-nonvalid");
        if (rx::construction_explodes(p.ast)) return Verdict::discard("nested-repetition-of-nullable-body(construction time)");
        Built b = build_real(c.pat, false);
        vj::Value det = vj::Value::object(); det.set("pattern", c.pat);
        if (b.predicted_ok && b.predicted > CAP) return Verdict::discard("too-big-for-builder-capacity");
        if (b.threw) { det.set("exception", b.exc); det.set("predicted", (unsigned long long)b.predicted); return Verdict::fail("automaton construction overflowed or threw within the predicted capacity", det); }
        if (!b.predicted_ok || !b.accepted) return Verdict::discard("refused");
        det.set("predicted", (unsigned long long)b.predicted); det.set("used", (unsigned long long)b.used);
        if (b.used > b.predicted) return Verdict::fail("automaton needs more states than the statically computed size", det);
        if ((p.nested_rep || p.rep_count >= 2) && st.counting && st.nontriv(eng::hstr(c.pat)))
        {
            st.label("nontrivial"); if (p.nested_rep) st.label("nested-rep"); if (b.used == b.predicted) st.label("exact-fit"); if (b.sized_by_library) st.label("capacity=regex::analyze_dfa_size(pattern)");
            if (st.want_sample()) { vj::Value s = vj::Value::object(); s.set("pattern", c.pat); s.set("predicted", (unsigned long long)b.predicted); s.set("used", (unsigned long long)b.used); st.sample(s); }
        }
        return Verdict::pass();
    }
};

// -------------------------------------------------------------------------------------------------
struct P_C17a
{
    using Case = RCase;
    static const char* id() { return "C17a"; }
    static Case gen(Choice& ch)
    {
        PG g(ch); Case c; std::string v = g.pattern();
        auto pos = [&](const std::string& s) { return s.empty() ? size_t(0) : size_t(ch.below(uint32_t(s.size() + 1))); };
        std::string m = v;
        switch (ch.below(14))
        {
        case 0: { // delete one ')' / ']' / '}' / '('
            std::vector<size_t> cand; for (size_t i = 0; i < v.size(); ++i) if (strchr(")]}(", v[i])) cand.push_back(i);
            if (!cand.empty()) m.erase(cand[ch.below(uint32_t(cand.size()))], 1); else m += "(";
            c.labels.push_back("mut:delete-bracket"); break; }
        case 1: m = std::string(1, "*+?{"[ch.below(4)]) + v; c.labels.push_back("mut:leading-quantifier"); break;
        case 2: { size_t p = v.find('|'); if (p == std::string::npos) m = v + "|"; else m.insert(p + 1, std::string(1, "*+?"[ch.below(3)])); c.labels.push_back("mut:quantifier-after-bar"); break; }
        case 3: { size_t p = v.find('{'); if (p == std::string::npos) m = v + "{}"; else { size_t q = v.find('}', p); if (q != std::string::npos) { switch (ch.below(3)) { case 0: m = v.substr(0, p + 1) + v.substr(q); break; case 1: m = v.substr(0, q) + v.substr(q + 1); break; default: m = v.substr(0, p + 1); break; } } } c.labels.push_back("mut:broken-repetition"); break; }
        case 4: { switch (ch.below(4)) { case 0: m = "|" + v; break; case 1: m = v + "|"; break; case 2: { size_t p = v.find('|'); if (p != std::string::npos) m.insert(p, "|"); else m = v + "||a"; break; } default: m = "(|" + v + ")"; break; } c.labels.push_back("mut:empty-alternative"); break; }
        case 5: { m.insert(pos(v), std::string(1, char(ch.chance(1, 2) ? ch.below(32) : 0x7f + ch.below(129)))); c.labels.push_back("mut:raw-byte"); break; }
        case 6: m = v + "\\"; c.labels.push_back("mut:trailing-backslash"); break;
        case 7: m = v + "["; if (ch.chance(1, 3)) m += "^"; if (ch.chance(1, 2)) m += "a"; if (ch.chance(1, 3)) m += "-"; if (ch.chance(1, 6)) m += "\\"; c.labels.push_back("mut:unterminated-set"); break;
        case 8: m.insert(pos(v), std::string(1, "()[]{}*+?|\\^-."[ch.below(15)])); c.labels.push_back("mut:insert-special"); break;
        case 9: if (!v.empty()) m.erase(pos(v) % v.size(), 1); c.labels.push_back("mut:delete-any"); break;
        case 10: m = v + ")"; c.labels.push_back("mut:extra-close"); break;
        case 12: { size_t p = pos(v); m.insert(p, std::string("\\") + char(ch.chance(1, 2) ? 1 + ch.below(31) : 0x7f + ch.below(129))); c.labels.push_back("mut:backslash+raw-byte"); break; }   // an ESCAPED raw non-printable byte is still a raw non-printable byte
        case 11: if (v.size() >= 2) m = v.substr(0, 1 + ch.below(uint32_t(v.size() - 1))); c.labels.push_back("mut:truncate"); break;   // every proper prefix of a valid pattern: the scan ends in the middle of some construct
        default: c.labels.push_back("unmutated"); break;
        }
        c.pat = m;
        return c;
    }
    static vj::Value to_json(const Case& c) { return rcase_json(c); }
    static Case from_json(const vj::Value& v) { return rcase_from(v); }
    static std::vector<Case> shrinks(const Case& c, const vj::Value& d) { return rcase_shrinks(c, d); }
    static Verdict eval(const Case& c, Stats& st)
    {
        rx::Parsed p = rx::parse_pattern(c.pat);
        if (p.ok && rx::construction_explodes(p.ast)) return Verdict::discard("nested-repetition-of-nullable-body(construction time)");
        vb::HeapCBuffer buf(c.pat);
        bool an_val = false, bl_val = false, an_threw = false, bl_threw = false; std::string exc;
        size_t predicted = 0;
        try { ctpg::regex::dfa_size_analyzer an; auto r = drive(an, buf); an_val = r.has_value(); if (an_val) predicted = r.value().n; }
        catch (const std::exception& e) { an_threw = true; exc = e.what(); }
        if (!(an_val && predicted > CAP))
        {
            try { RealDfa& sm = real_sm(); sm.clear(); ctpg::regex::dfa_builder<CAP> bld(sm); auto r = drive(bld, buf); bl_val = r.has_value(); }
            catch (const std::exception& e) { bl_threw = true; exc = e.what(); }
        }
        else bl_val = true;
        vj::Value det = vj::Value::object(); det.set("pattern", c.pat); det.set("class_reason", p.why);
        det.set("analyzer_accepts", an_val); det.set("builder_accepts", bl_val);
        if (p.cls == rx::MALFORMED)
        {
            if (an_val || bl_val) return Verdict::fail("malformed pattern (" + p.why + ") was accepted", det);
            if (st.counting && st.nontriv(eng::hstr(c.pat))) { st.label("nontrivial"); st.label("malformed:" + p.why); for (auto& l : c.labels) st.label(l); if (st.want_sample()) { vj::Value s = vj::Value::object(); s.set("pattern", c.pat); s.set("category", p.why); st.sample(s); } }
            return Verdict::pass();
        }
        if (p.cls == rx::VALID)
        {
            if (an_threw || bl_threw) { det.set("exception", exc); return Verdict::fail("construction threw for a pattern in the documented syntax", det); }
            if (!an_val || !bl_val) return Verdict::fail("pattern in the documented syntax was refused", det);
            st.label("valid-accepted");
            return Verdict::pass();
        }
        st.label("unspecified(safety-only)");
        return Verdict::pass();
    }
};

// emit mode for the compiled tier: patterns + strings + expected acceptance (reference; model automaton where F5 explains the real one)
static int emit_patterns(const eng::Args& a)
{
    std::string params = "seed=" + std::to_string(a.seed) + " max_success=" + std::to_string(a.cases * 80) + " max_size=" + std::to_string(a.size) + " max_shrinks=0";
    setenv("RC_PARAMS", params.c_str(), 1);
    vj::Value cases = vj::Value::array(); std::set<std::string> seen; size_t want = size_t(a.cases);
    rc::check("emit", [&]()
    {
        auto bytes = *rc::gen::container<std::vector<uint8_t>>(rc::gen::arbitrary<uint8_t>());
        if (cases.size() >= want) return;
        Choice ch(bytes); PG g(ch);
        std::string pat = g.pattern();
        if (pat.size() < 3 || pat.size() > 24 || seen.count(pat)) return;
        rx::Parsed p = rx::parse_pattern(pat);
        if (p.cls != rx::VALID || p.ops < 1) return;
        rx::Dfa spec; if (!rx::ast_to_dfa(p.ast, spec) || spec.size() > 60) return;
        Built b = build_real(pat, true);
        if (b.threw || !b.accepted || b.predicted > 120) return;
        std::string w; bool f5 = false;
        const rx::Dfa* expect = &spec; rx::Dfa md;
        if (!rx::equivalent(spec, b.dfa, w))
        {
            bm::Builder m(CAP); bm::Slice whole = m.build(p.ast, p.ast.root); if (m.overflow) return; m.mark_end_states(whole, 0); m.to_dfa(md);
            std::string w2; if (!rx::equivalent(md, b.dfa, w2)) return;          // an unexplained difference is C03's business, not emitted
            f5 = true; expect = &md;
        }
        seen.insert(pat);
        eng::Rng rng = ch.fork();
        std::set<std::string> strs; strs.insert("");
        for (int k = 0; k < 40 && strs.size() < 12; ++k)
        {
            std::string s; int q = 0;
            for (int step = 0; step < 10; ++step)
            {
                if (expect->label[size_t(q)] >= 0 && rng.chance(1, 3)) break;
                std::vector<int> opts; for (int cc = 0; cc < 256; ++cc) if (expect->tr[size_t(q)][size_t(cc)] >= 0) opts.push_back(cc);
                if (opts.empty()) break;
                std::vector<int> pr; for (int x : opts) if (x >= 32 && x < 127) pr.push_back(x);
                int cc = (!pr.empty() && rng.chance(7, 8)) ? pr[rng.below(uint32_t(pr.size()))] : opts[rng.below(uint32_t(opts.size()))];
                s += char(cc); q = expect->tr[size_t(q)][size_t(cc)];
            }
            strs.insert(s);
            if (!s.empty()) { std::string m2 = s; switch (rng.below(3)) { case 0: m2.pop_back(); break; case 1: m2 += m2.back(); break; default: m2[rng.below(uint32_t(m2.size()))] = char("ab01z"[rng.below(5)]); break; } strs.insert(m2); }
            if (f5 && !w.empty()) strs.insert(w);
        }
        vj::Value ss = vj::Value::array();
        for (auto& x : strs) { vj::Value y = vj::Value::object(); y.set("hex", vj::hex(x)); y.set("accept", rx::dfa_run(*expect, x) == 0); y.set("spec_accept", rx::dfa_run(spec, x) == 0); ss.push(y); }
        vj::Value o = vj::Value::object(); o.set("pattern_hex", vj::hex(pat)); o.set("pattern", pat); o.set("f5", f5); o.set("dfa_size", (unsigned long long)b.predicted); o.set("strings", ss);
        cases.push(o);
    });
    vj::Value doc = vj::Value::object(); doc.set("cases", cases);
    if (!a.out.empty()) vj::save(a.out, doc); else printf("%s\n", doc.dump().c_str());
    return cases.size() >= 1 ? 0 : 2;
}

int main(int argc, char** argv)
{
    eng::Args a = eng::parse_args(argc, argv);
    if (a.mode == "emit") { int rc = 2; eng::on_big_stack([&] { rc = emit_patterns(a); }); return rc; }
    int rc = 2;
    eng::on_big_stack([&]
    {
        if (a.prop == "C03") rc = eng::run_property<P_C03>(a);
        else if (a.prop == "C12a" || a.prop == "C12") rc = eng::run_property<P_C12a>(a);
        else if (a.prop == "C17a" || a.prop == "C17") rc = eng::run_property<P_C17a>(a);
        else { fprintf(stderr, "unknown --prop %s\n", a.prop.c_str()); rc = 2; }
    });
    return rc;
}

// Engine for the table-capacity and fixed-stack parts of C12 (built with the cvector bounds monitor):
//   C12b: custom limits around the grammar's real state / situation counts: too small => construction must be rejected loudly,
//         sufficient => same behaviour as with large limits; the bounds monitor must never fire before an exception.
//   C12c: cstring_buffer<N> selects fixed-size stacks of N + EmptyRulesCount + 1: no overflow for any input, result == string_buffer run.
#include "common/grammar_runner.hpp"

struct lim_a { static const size_t state_count_cap = 8;  static const size_t max_sit_count_per_state_cap = 14; };
struct lim_b { static const size_t state_count_cap = 12; static const size_t max_sit_count_per_state_cap = 24; };
struct lim_c { static const size_t state_count_cap = 18; static const size_t max_sit_count_per_state_cap = 36; };
struct lim_d { static const size_t state_count_cap = 28; static const size_t max_sit_count_per_state_cap = 60; };
// the two caps are independent: levels whose per-state cap is SMALLER than the state cap (the README's own example has that shape)
struct lim_e { static const size_t state_count_cap = 40; static const size_t max_sit_count_per_state_cap = 12; };
struct lim_f { static const size_t state_count_cap = 26; static const size_t max_sit_count_per_state_cap = 18; };
using TTe = tpl::T20<lim_e>; using TTf = tpl::T20<lim_f>;
using TTa = tpl::T20<lim_a>; using TTb = tpl::T20<lim_b>; using TTc = tpl::T20<lim_c>; using TTd = tpl::T20<lim_d>;

struct CapOutcome { bool constructed = false; bool loud = false; bool monitor = false; std::string exc; };

template<class TT>
static CapOutcome try_construct(const Grammar& g)
{
    CapOutcome o;
    try { Runner<TT>::inject(g); o.constructed = true; }
    catch (const ctpg_verif::bounds_violation& e) { o.monitor = true; o.exc = e.what(); }
    catch (const std::exception& e) { o.loud = true; o.exc = e.what(); }
    return o;
}

template<class TT>
static Verdict cap_level(const GCase& c, const Prepared& pr, const std::vector<Obs>& reference, Stats& st, bool& near, const char* lname)
{
    using PS = typename TT::parser_type;
    size_t capS = access::state_cap<PS>(), capI = access::sit_cap<PS>();
    size_t needS = pr.table.states.size(), needI = pr.table.max_items;
    bool fits = needS <= capS && needI <= capI;
    auto dist = [](size_t a, size_t b) { return a > b ? a - b : b - a; };
    if (dist(needS, capS) <= 1 || dist(needI, capI) <= 1) near = true;
    CapOutcome o = try_construct<TT>(c.g);
    vj::Value d = vj::Value::object(); d.set("limits", lname); d.set("state_cap", (unsigned long long)capS); d.set("situation_cap", (unsigned long long)capI); d.set("states_needed", (unsigned long long)needS); d.set("situations_needed", (unsigned long long)needI); if (!o.exc.empty()) d.set("exception", o.exc);
    if (o.monitor) return Verdict::fail(fits ? "a table vector overflowed although the limits suffice" : "too small limits: a table vector overflowed silently instead of construction being rejected", d);
    if (!fits)
    {
        if (o.constructed) return Verdict::fail("too small limits: construction succeeded", d);
        st.label(std::string("rejected-loudly:") + (needS > capS ? "states" : "situations"));
        return Verdict::pass();
    }
    if (!o.constructed) return Verdict::fail("sufficient limits: construction was rejected", d);
    // same behaviour as the parser with large limits
    for (size_t k = 0; k < c.inputs.size() && k < reference.size(); ++k)
    {
        Obs ob = Runner<TT>::observe(c.inputs[k], false, 1, 0);
        st.sub_evaluations += st.counting ? 1 : 0;
        if (ob.threw != reference[k].threw || ob.has != reference[k].has || ob.value != reference[k].value || ob.err != reference[k].err)
        { d.set("input_index", (unsigned long long)k); d.set("input", c.inputs[k].text); return Verdict::fail("parser built with sufficient custom limits behaves differently from the one built with large limits", d); }
    }
    return Verdict::pass();
}

struct P_C12b
{
    using Case = GCase;
    static const char* id() { return "C12b"; }
    static Case gen(Choice& ch)
    {
        GCase c; c.tmpl = 1;
        // a third of the grammars use the larger template (rules of arity up to 6, 39 rule slots): there only "limits that suffice must construct" is checked
        if (ch.chance(1, 3)) c.tmpl = 0;
        c.g = gg::gen_grammar(ch, gg::CONFLICT_FREE, c.strategy, slots_of(c.tmpl));
        eng::Rng rng = ch.fork(); ref::Analysis an = ref::analyse(c.g);
        gg::gen_inputs(c.g, an, rng, 30 + ch.below(4) * 20, 4, c.inputs);
        return c;
    }
    static vj::Value to_json(const Case& c) { return gcase_to_json(c); }
    static Case from_json(const vj::Value& v) { return gcase_from_json(v); }
    static std::vector<Case> shrinks(const Case& c, const vj::Value& d) { return gcase_shrinks(c, d); }
    static Verdict eval(const Case& c, Stats& st)
    {
        const Grammar& g = c.g;
        if (g.rules.empty()) return Verdict::discard("empty-grammar");
        Prepared pr;
        if (c.tmpl == 0)
        {
            if (!Runner<TT36>::prepare(g, pr)) return Verdict::discard(pr.why);
            if (!pr.table.conflict_free()) return Verdict::discard("not-LR1");
            using PS = TT36::parser_type;
            vj::Value d = vj::Value::object(); d.set("state_cap", (unsigned long long)access::state_cap<PS>()); d.set("situation_cap", (unsigned long long)access::sit_cap<PS>());
            d.set("states_needed", (unsigned long long)pr.table.states.size()); d.set("situations_needed", (unsigned long long)pr.table.max_items);
            if (pr.table.states.size() > access::state_cap<PS>() || pr.table.max_items > access::sit_cap<PS>()) return Verdict::discard("beyond-the-large-template-limits");
            CapOutcome ro = try_construct<TT36>(g);
            if (!ro.constructed) { d.set("exception", ro.exc); return Verdict::fail(ro.monitor ? "a table vector overflowed although the limits suffice (large template)" : "construction was rejected although the limits suffice (large template)", d); }
            size_t alts = 0; { std::map<int, size_t> per; for (auto& r : g.rules) alts = std::max(alts, ++per[r.lhs]); }
            if (alts >= 6 && st.counting && st.nontriv(g.hash())) { st.label("nontrivial"); st.label("large-template:nonterminal-with>=6-alternatives"); if (alts >= 12) st.label("large-template:nonterminal-with>=12-alternatives"); }
            return Verdict::pass();
        }
        if (!Runner<TT20>::prepare(g, pr)) return Verdict::discard(pr.why);
        if (!pr.table.conflict_free()) return Verdict::discard("not-LR1");
        // default-sized reference parser: must construct
        CapOutcome ro = try_construct<TT20>(g);
        if (!ro.constructed) { vj::Value d = vj::Value::object(); d.set("exception", ro.exc); return Verdict::fail(ro.monitor ? "a table vector overflowed with large limits" : "construction threw with large limits", d); }
        std::vector<Obs> reference;
        for (auto& in : c.inputs) reference.push_back(Runner<TT20>::observe(in, false, 1, 0));
        bool near = false;
        Verdict v = cap_level<TTa>(c, pr, reference, st, near, "8/14"); if (v.k == Verdict::FAIL) return v;
        v = cap_level<TTb>(c, pr, reference, st, near, "12/24"); if (v.k == Verdict::FAIL) return v;
        v = cap_level<TTc>(c, pr, reference, st, near, "18/36"); if (v.k == Verdict::FAIL) return v;
        v = cap_level<TTd>(c, pr, reference, st, near, "28/60"); if (v.k == Verdict::FAIL) return v;
        v = cap_level<TTe>(c, pr, reference, st, near, "40/12"); if (v.k == Verdict::FAIL) return v;
        v = cap_level<TTf>(c, pr, reference, st, near, "26/18"); if (v.k == Verdict::FAIL) return v;
        if (near && st.counting && st.nontriv(g.hash()))
        {
            st.label("nontrivial");
            if (st.want_sample()) { vj::Value s = vj::Value::object(); s.set("grammar", g.show()); s.set("states_needed", (unsigned long long)pr.table.states.size()); s.set("situations_needed", (unsigned long long)pr.table.max_items); st.sample(s); }
        }
        return Verdict::pass();
    }
};

// -------------------------------------------------------------------------------------------------
constexpr size_t MAXN = 20;
template<class F, size_t... I>
static bool dispatch_n_impl(size_t n, F& f, std::index_sequence<I...>)
{
    bool done = false;
    auto one = [&](auto ic) { if (!done && decltype(ic)::value == n) { f(ic); done = true; } };
    (one(std::integral_constant<size_t, I + 1>{}), ...);
    return done;
}

struct P_C12c
{
    using Case = GCase;
    static const char* id() { return "C12c"; }
    static Case gen(Choice& ch)
    {
        GCase c; c.tmpl = ch.chance(1, 2) ? 0 : 1;
        c.g = gg::gen_grammar(ch, ch.chance(1, 3) ? gg::RECOVERY : gg::CONFLICT_FREE, c.strategy, slots_of(c.tmpl));     // recovery pushes the error symbol without consuming input
        eng::Rng rng = ch.fork(); ref::Analysis an = ref::analyse(c.g);
        std::vector<gg::Input> all; gg::gen_inputs(c.g, an, rng, 60 + ch.below(4) * 40, 8, all);
        for (auto& in : all) if (in.text.size() + 1 <= MAXN) c.inputs.push_back(in);
        return c;
    }
    static vj::Value to_json(const Case& c) { return gcase_to_json(c); }
    static Case from_json(const vj::Value& v) { return gcase_from_json(v); }
    static std::vector<Case> shrinks(const Case& c, const vj::Value& d) { return gcase_shrinks(c, d); }
    static Verdict eval(const Case& c, Stats& st) { return c.tmpl == 0 ? eval_t<TT36>(c, st) : eval_t<TT20>(c, st); }
    template<class TT>
    static Verdict eval_t(const Case& c, Stats& st)
    {
        using R = Runner<TT>; using PS = typename TT::parser_type;
        const Grammar& g = c.g;
        if (g.rules.empty()) return Verdict::discard("empty-grammar");
        Prepared pr;
        if (!R::prepare(g, pr)) return Verdict::discard(pr.why);
        if (!pr.table.conflict_free()) return Verdict::discard("not-LR1");
        try { R::inject(g); } catch (const std::exception& e) { vj::Value d = vj::Value::object(); d.set("exception", e.what()); return Verdict::fail("construction threw", d); }
        PS& p = R::parser();
        constexpr size_t E = access::empty_rules_count<PS>();
        size_t interesting = 0; bool any_known = false;
        for (size_t k = 0; k < c.inputs.size(); ++k)
        {
            const gg::Input& in = c.inputs[k];
            size_t N = in.text.size() + 1;
            if (N > MAXN || in.text.find('\0') != std::string::npos) continue;
            Expect e = expect_for(pr, in);
            // the documented recovery algorithm makes no progress on some grammar/input pairs (the error symbol is shifted and reduced without a term being consumed,
            // then the same error again): the reference's step guard recognises them; they are skipped here as in the other engines (DESIGN App. F.3)
            if (e.rr.looped || e.rr.hit_rr) continue;
            Obs ref_obs = R::observe(in, false, 1, 1);
            bool has = false, threw = false, monitor = false; uint64_t value = 0; std::string exc, err;
            auto run = [&](auto ic)
            {
                constexpr size_t NN = decltype(ic)::value;
                char arr[NN]; std::memcpy(arr, in.text.data(), NN - 1); arr[NN - 1] = 0;
                ctpg::buffers::cstring_buffer<NN> buf(static_cast<const char(&)[NN]>(arr));
                std::ostringstream os;
                try { auto r = p.parse(ctpg::parse_options{}.set_skip_whitespace(in.skip_ws).set_skip_newline(in.skip_nl), buf, os); has = r.has_value(); if (has) value = r.value().get_value().h; }
                catch (const ctpg_verif::bounds_violation& ex) { threw = true; monitor = true; exc = ex.what(); }
                catch (const std::exception& ex) { threw = true; exc = ex.what(); }
                err = os.str();
            };
            dispatch_n_impl(N, run, std::make_index_sequence<MAXN>{});
            st.sub_evaluations += st.counting ? 1 : 0;
            size_t capacity = N + E + 1;
            vj::Value d = fail_detail(k, in); d.set("buffer", "cstring_buffer<" + std::to_string(N) + ">"); d.set("stack_capacity", (unsigned long long)capacity); d.set("stack_depth_needed", (unsigned long long)e.rr.max_depth); if (!exc.empty()) d.set("exception", exc);
            if (threw || has != ref_obs.has || value != ref_obs.value || err != ref_obs.err)
            {
                bool explained = e.rr.max_depth > capacity && threw;
                if (explained && eng::args().is_known("F11")) { any_known = true; continue; }
                return Verdict::fail(threw ? (monitor ? "fixed-size parse stack overflowed (cstring_buffer)" : "parse with cstring_buffer threw") : "cstring_buffer run differs from the string_buffer run", d);
            }
            if (e.rr.max_depth * 2 >= N) ++interesting;
            if (e.rr.recovered && st.counting) st.label("input-with-recovery");
        }
        if (any_known && st.counting) st.excluded_known["F11"]++;
        if (interesting && st.counting && st.nontriv(eng::hcomb(g.hash(), c.inputs.size())))
        {
            st.label("nontrivial"); if (pr.an.has_eps) st.label("eps-rules");
            if (st.want_sample()) { vj::Value s = vj::Value::object(); s.set("grammar", g.show()); s.set("inputs", (unsigned long long)c.inputs.size()); st.sample(s); }
        }
        return Verdict::pass();
    }
};

int main(int argc, char** argv)
{
    eng::Args a = eng::parse_args(argc, argv);
    int rc = 2;
    eng::on_big_stack([&]
    {
        if (a.prop == "C12b") rc = eng::run_property<P_C12b>(a);
        else if (a.prop == "C12c") rc = eng::run_property<P_C12c>(a);
        else { fprintf(stderr, "unknown --prop %s\n", a.prop.c_str()); rc = 2; }
    });
    return rc;
}

// Engine E1: run-time grammar injection into the real state_analyzer / parse driver (DESIGN.md 4.1).
// Properties: C01 C02 C05 C08 C09 C10(positions through the parser) C11 C16.
#include "common/grammar_runner.hpp"

// ===================================================================================================
// property checks; each returns PASS/FAIL/DISCARD for one case
enum PropId { C01, C02, C05, C08, C09, C10, C11, C16, C04G, C12S, C02R };

template<class TT>
static Verdict check_case(PropId prop, const GCase& c, Stats& st)
{
    using R = Runner<TT>;
    const Grammar& g = c.g;
    if (g.rules.empty()) return Verdict::discard("empty-grammar");
    // C04g: C04's last clause ("if no term matches ... the parse fails with an 'Unexpected character' report instead of skipping") in every parser
    // mode, in particular while error recovery is discarding terms: the recovery oracle of C08 restricted to inputs with an unmatchable byte
    const bool only_lexical = prop == C04G;
    if (only_lexical) prop = C08;
    // C12s: "stack sizes ... are large enough for every input": the value oracle of C02 on inputs that are much deeper / longer than any initial reservation
    const bool only_deep = prop == C12S;
    if (only_deep) prop = C02;
    // C02r: C02's parenthesis "(except nodes later discarded by error recovery)": in a parse that recovered, the functors of the nodes that stay get exactly the
    // values of their children in the derivation with the error symbol; the recovery oracle of C08 serves it (same grammars, counted under C02)
    if (prop == C02R) prop = C08;
    bool uses_err = g.uses_error();
    if (uses_err && (prop == C01 || prop == C09 || prop == C05)) return Verdict::discard("uses-error");
    if (!uses_err && prop == C08) return Verdict::discard("no-error-rule");
    Prepared pr;
    if (!R::prepare(g, pr)) return Verdict::discard(pr.why);
    const ref::Table& T = pr.table;
    if (prop == C01 || prop == C09 || prop == C02 || prop == C10)
        if (!T.conflict_free()) return Verdict::discard(T.has_rr ? "not-LR1-rr" : "not-LR1-sr");
    if (prop == C05) { if (T.has_rr) return Verdict::discard("has-rr"); if (!T.has_sr) return Verdict::discard("no-sr-conflict"); }
    if (prop == C08 || prop == C16) { if (T.has_rr) return Verdict::discard("has-rr"); }
    try { R::inject(g); }
    catch (const std::exception& e)
    {
        vj::Value d = vj::Value::object(); d.set("exception", e.what());
        return Verdict::fail(std::string("table construction threw: ") + e.what(), d);
    }
    std::map<int, int> rule_of_slot; for (size_t i = 0; i < g.rules.size(); ++i) rule_of_slot[g.rules[i].slot] = int(i);

    // ---------------- C11: diagnostics ------------------------------------------------------------
    if (prop == C11)
    {
        std::string text = R::diag();
        dt::Diag d = dt::parse_diag(text);
        auto failure = [&](const std::string& what, vj::Value det = vj::Value::object()) { det.set("diag_excerpt", text.substr(0, 1500)); return Verdict::fail(what, det); };
        if (!d.ok) return failure("diagnostic text does not follow the documented format: " + d.error);
        // (2) rule numbering = source order of rules(...)
        std::map<int, const dt::Rule*> listed;
        for (auto& dr : d.rules) { if (listed.count(dr.nr)) return failure("RULES list uses a rule number twice"); listed[dr.nr] = &dr; }
        for (auto& r : g.rules)
        {
            if (!listed.count(r.slot)) return failure("RULES list does not contain every rule number");
            const dt::Rule& dr = *listed[r.slot];
            std::vector<std::string> rhs; for (auto& s : r.rhs) rhs.push_back(g.sname(s));
            if (dr.nr != r.slot || dr.lhs != g.nname(r.lhs) || dr.rhs != rhs)
            {
                vj::Value det = vj::Value::object(); det.set("rule_nr", r.slot); det.set("expected_lhs", g.nname(r.lhs)); det.set("listed_lhs", dr.lhs);
                return failure("RULES list does not number rules in source order", det);
            }
        }
        // states matched by item set
        auto item_text = [&](const ref::Item& it)
        {
            std::string t; std::vector<ref::Sym> rootrhs;
            const auto& rhs = ref::rhs_of(g, it.rule, rootrhs);
            t = (it.rule == int(g.rules.size()) ? std::string("##") : g.nname(g.rules[size_t(it.rule)].lhs)) + " <-";
            for (int k = 0; k < it.dot; ++k) t += " " + g.sname(rhs[size_t(k)]);
            t += " .";
            for (size_t k = size_t(it.dot); k < rhs.size(); ++k) t += " " + g.sname(rhs[k]);
            t += " ==> " + g.tname(it.la);
            return t;
        };
        std::map<std::set<std::string>, int> r1_by_items;
        for (size_t q = 0; q < T.states.size(); ++q) { std::set<std::string> s; for (auto& it : T.states[q]) s.insert(item_text(it)); r1_by_items[s] = int(q); }
        std::vector<int> r1_of(d.states.size(), -1);
        std::map<int, int> impl_of_r1;
        for (size_t i = 0; i < d.states.size(); ++i)
        {
            std::set<std::string> s; for (auto& it : d.states[i].items) s.insert(it.text);
            auto f = r1_by_items.find(s);
            if (f == r1_by_items.end())
            {
                vj::Value det = vj::Value::object(); det.set("state", d.states[i].nr);
                vj::Value its = vj::Value::array(); for (auto& x : s) its.push(x); det.set("listed_items", its);
                return failure("a listed state's item set is not an LR(1) state of the grammar", det);
            }
            if (impl_of_r1.count(f->second)) return failure("two listed states have the same item set");
            r1_of[i] = f->second; impl_of_r1[f->second] = int(i);
            if (d.states[i].nr != int(i)) return failure("states are not numbered consecutively");
        }
        if (T.conflict_free() && d.states.size() != T.states.size())
        {
            vj::Value det = vj::Value::object(); det.set("listed", (unsigned long long)d.states.size()); det.set("lr1", (unsigned long long)T.states.size());
            return failure("conflict-free grammar: number of listed states differs from the canonical LR(1) collection", det);
        }
        if (d.states_n != long(d.states.size())) return failure("header state count differs from listed states");
        { size_t mx = 0; for (auto& s : d.states) mx = std::max(mx, s.items.size()); if (d.max_sit != long(mx)) return failure("header max situations differs from listed states"); }
        // (1)+(3) actions
        size_t conflict_lines = 0;
        for (size_t i = 0; i < d.states.size(); ++i)
        {
            int q = r1_of[i];
            std::map<std::string, const dt::Action*> act;
            for (auto& a : d.states[i].actions)
            {
                if (act.count(a.sym)) return failure("two action lines for one symbol");
                act[a.sym] = &a;
            }
            auto st_fail = [&](const std::string& what, const std::string& sym)
            {
                vj::Value det = vj::Value::object(); det.set("state", int(i)); det.set("symbol", sym);
                return failure(what, det);
            };
            for (int t = 0; t < g.term_count(); ++t)
            {
                const ref::Cell& cell = T.cells[size_t(q)][size_t(t)];
                std::string name = g.tname(t);
                const dt::Action* a = act.count(name) ? act[name] : nullptr;
                if (cell.accept && (cell.rr)) continue;     // accept mixed with other actions: unit cycles on the root, not specified
                bool is_rr = cell.reduces.size() > 1;
                bool is_sr = cell.reduces.size() == 1 && cell.shift >= 0;
                if (a && (a->k == dt::Action::SR_REDUCE || a->k == dt::Action::SR_SHIFT || a->k == dt::Action::RR)) ++conflict_lines;
                if (is_rr) { if (!a || a->k != dt::Action::RR) return st_fail("R/R conflict not reported", name); continue; }
                if (is_sr)
                {
                    int slot = g.rules[size_t(cell.reduces[0])].slot;
                    if (!a || (a->k != dt::Action::SR_REDUCE && a->k != dt::Action::SR_SHIFT)) return st_fail("S/R conflict not reported", name);
                    if ((a->k == dt::Action::SR_REDUCE) != cell.prefer_reduce) return st_fail("S/R conflict line names the wrong preferred side", name);
                    if (a->arg != slot)
                    {
                        vj::Value det = vj::Value::object(); det.set("state", int(i)); det.set("symbol", name); det.set("listed_rule", a->arg); det.set("actual_rule", slot);
                        return failure("S/R conflict line names the wrong rule", det);
                    }
                    continue;
                }
                if (cell.accept) { if (!a || a->k != dt::Action::SUCCESS) return st_fail("success action not listed", name); continue; }
                if (cell.reduces.size() == 1)
                {
                    int slot = g.rules[size_t(cell.reduces[0])].slot;
                    if (!a || a->k != dt::Action::REDUCE) return st_fail(a ? "conflict or other action listed where the grammar has a plain reduce" : "reduce action not listed", name);
                    if (a->arg != slot) return st_fail("reduce action lists the wrong rule", name);
                    continue;
                }
                if (cell.shift >= 0)
                {
                    if (!a || a->k != dt::Action::SHIFT) return st_fail(a ? "conflict or other action listed where the grammar has a plain shift" : "shift action not listed", name);
                    if (a->arg < 0 || size_t(a->arg) >= d.states.size() || r1_of[size_t(a->arg)] != cell.shift) return st_fail("shift action lists the wrong target state", name);
                    continue;
                }
                if (a) return st_fail("action listed for a term on which the state has no action", name);
            }
            for (int n = 0; n < g.nN; ++n)
            {
                int to = T.go[size_t(q)][size_t(n)];
                std::string name = g.nname(n);
                const dt::Action* a = act.count(name) ? act[name] : nullptr;
                if (to >= 0)
                {
                    // the target state may be unreachable in the real automaton only if every path to this goto was cut by a conflict resolution
                    if (!a) { if (T.conflict_free()) return st_fail("goto not listed", name); continue; }
                    if (a->k != dt::Action::GOTO || a->arg < 0 || size_t(a->arg) >= d.states.size() || r1_of[size_t(a->arg)] != to) return st_fail("goto lists the wrong target state", name);
                }
                else if (a) return st_fail("goto listed for a nonterminal the state cannot go on", name);
            }
        }
        // (4) listed actions == real table cells (hook)
        auto dump = R::dump();
        if (dump.state_count != d.states.size()) return failure("state_count differs from listed states");
        for (size_t i = 0; i < d.states.size(); ++i)
            for (auto& a : d.states[i].actions)
            {
                size_t col;
                if (a.k == dt::Action::GOTO) { col = size_t(std::stoi(a.sym.substr(1))); }
                else
                {
                    int t = a.sym == "<eof>" ? g.eof() : a.sym == "<error_recovery_token>" ? g.err() : int(a.sym[0] - 'a');
                    col = dump.nterm_count + size_t(t);
                }
                const auto& e = dump.rows[i][col];
                bool okc = true;
                switch (a.k)
                {
                case dt::Action::GOTO: case dt::Action::SHIFT: okc = (e.kind == 2 || e.kind == 3) && e.arg == a.arg; break;
                case dt::Action::SR_SHIFT: okc = (e.kind == 2 || e.kind == 3); break;
                case dt::Action::REDUCE: case dt::Action::SR_REDUCE: okc = e.kind == 4 && dump.rule_of_info[size_t(e.arg)] == a.arg; break;
                case dt::Action::SUCCESS: okc = e.kind == 1; break;
                case dt::Action::RR: okc = e.kind == 5; break;
                }
                if (!okc) { vj::Value det = vj::Value::object(); det.set("state", int(i)); det.set("symbol", a.sym); return failure("listed action differs from the parse table cell", det); }
            }
        // (3b) truthfulness: a table interpreter driven only by the text agrees with the real parser
        std::map<std::string, int> termidx; for (int t = 0; t < g.term_count(); ++t) termidx[g.tname(t)] = t;
        size_t ran = 0;
        for (size_t k = 0; k < c.inputs.size() && ran < 60; ++k)
        {
            const gg::Input& in = c.inputs[k];
            gg::Lexed L = gg::lex_ref(in.text, in.skip_ws, in.skip_nl);
            if (L.lex_error || uses_err) continue;
            ++ran;
            // interpret
            std::vector<int> stck{0}; size_t pos = 0; bool acc = false; bool hit_rr = false; size_t guard = 0;
            while (++guard < 20000)
            {
                int t = pos < L.toks.size() ? L.toks[pos].term : g.eof();
                const dt::Action* a = nullptr;
                for (auto& x : d.states[size_t(stck.back())].actions) if (x.k != dt::Action::GOTO && x.sym == g.tname(t)) a = &x;
                if (!a) break;
                if (a->k == dt::Action::SUCCESS) { acc = true; break; }
                if (a->k == dt::Action::RR) { hit_rr = true; break; }
                if (a->k == dt::Action::SHIFT) { stck.push_back(a->arg); ++pos; continue; }
                if (a->k == dt::Action::SR_SHIFT)
                {
                    // the text does not say where the shift goes; take it from the shift the canonical automaton has
                    int q = r1_of[size_t(stck.back())]; int to = T.cells[size_t(q)][size_t(t)].shift;
                    if (to < 0 || !impl_of_r1.count(to)) { hit_rr = true; break; }
                    stck.push_back(impl_of_r1[to]); ++pos; continue;
                }
                // reduce
                int slot = a->arg;
                if (!listed.count(slot)) return failure("reduce action names a rule outside the RULES list");
                const dt::Rule& dr = *listed[slot];
                if (stck.size() <= dr.rhs.size()) return failure("reduce action would underflow the stack of the text-driven interpreter");
                stck.resize(stck.size() - dr.rhs.size());
                const dt::Action* gt = nullptr;
                for (auto& x : d.states[size_t(stck.back())].actions) if (x.k == dt::Action::GOTO && x.sym == dr.lhs) gt = &x;
                if (!gt) return failure("no goto listed for the left side of a reduced rule");
                stck.push_back(gt->arg);
            }
            if (hit_rr || guard >= 20000) continue;    // cyclic ambiguous grammar: the documented behaviour is undefined / does not terminate
            Obs o = R::observe(in, false, 0, 0);
            st.sub_evaluations += st.counting ? 1 : 0;
            if (o.threw) continue;
            if (o.has != acc)
            {
                vj::Value det = fail_detail(k, in); det.set("text_table_accepts", acc); det.set("parser_accepts", o.has);
                return failure("the parser does not execute the table that write_diag_str lists", det);
            }
        }
        bool nontrivial = d.states.size() >= 4 && (T.conflict_free() || conflict_lines > 0);
        if (nontrivial && st.counting && st.nontriv(g.hash()))
        {
            labels_for(g, pr, st, c);
            st.label(T.has_rr ? "class:rr" : T.has_sr ? "class:sr" : "class:conflict-free");
            if (conflict_lines) st.label("has-conflict-lines");
            if (st.want_sample()) { vj::Value s = vj::Value::object(); s.set("grammar", g.show()); s.set("states", (unsigned long long)d.states.size()); s.set("conflict_lines", (unsigned long long)conflict_lines); st.sample(s); }
        }
        return Verdict::pass();
    }

    // ---------------- input-driven properties ---------------------------------------------------------
    ref::Earley earley(g, pr.an);
    size_t acc = 0, rej = 0, disagreements = 0, interesting = 0;
    ctpg_verif::TableDump dump;
    if (prop == C16) dump = R::dump();
    std::vector<std::string> case_labels;
    for (size_t k = 0; k < c.inputs.size(); ++k)
    {
        const gg::Input& in = c.inputs[k];
        Expect e = expect_for(pr, in, false);
        if (e.rr.hit_rr || e.rr.looped) continue;
        if (prop == C01 || prop == C02 || prop == C05) { if (e.L.lex_error) continue; }
        if (only_lexical && !e.L.lex_error) continue;
        if (only_deep && e.L.toks.size() < 900) continue;
        if (!uses_err && !e.L.lex_error && e.L.toks.size() <= 160)      // Earley is cubic: the second opinion is for the short inputs
        {
            std::vector<int> tt; for (auto& t : e.L.toks) tt.push_back(t.term);
            auto er = earley.run(tt);
            bool dis = false;
            if (T.conflict_free() && er.first != e.rr.accepted) dis = true;
            if (T.conflict_free() && pr.an.all_productive && !e.rr.accepted)
            {
                int expect_err = er.second < tt.size() ? int(er.second) : int(tt.size());
                if (expect_err != e.rr.error_token) dis = true;
            }
            if (dis) { ++disagreements; continue; }
        }
        auto fail = [&](const std::string& what, vj::Value det) { return Verdict::fail(only_lexical ? "input with a byte that no term matches: " + what : only_deep ? "deep / long input (beyond every initial stack reservation): " + what : what, det); };

        if (prop == C01)
        {
            Obs o = R::observe(in, false, 0, 0);
            st.sub_evaluations += st.counting ? 1 : 0;
            if (o.threw) { auto d = fail_detail(k, in); d.set("exception", o.exc); return fail("parse threw on a conflict-free grammar", d); }
            if (o.has != e.rr.accepted) { auto d = fail_detail(k, in); d.set("expected_accept", e.rr.accepted); d.set("observed_accept", o.has); return fail(e.rr.accepted ? "derivable input rejected" : "underivable input accepted", d); }
            if (o.has) ++acc; else ++rej;
            continue;
        }
        if (prop == C02 || prop == C05)
        {
            if (!e.rr.accepted) { ++rej; continue; }
            if (prop == C05 && !e.rr.hit_sr) { continue; }
            Obs o = R::observe(in, false, 0, int(k % 2));
            st.sub_evaluations += st.counting ? 1 : 0;
            if (o.threw) { auto d = fail_detail(k, in); d.set("exception", o.exc); return fail("parse threw on an accepted input", d); }
            if (!o.has) { auto d = fail_detail(k, in); return fail(prop == C05 ? "input that the documented conflict resolution accepts was rejected" : "accepted input rejected", d); }
            if (o.value != e.rr.value)
            {
                auto d = fail_detail(k, in); d.set("expected_value", (unsigned long long)e.rr.value); d.set("observed_value", (unsigned long long)o.value);
                vj::Value er = vj::Value::array(); for (int r : e.rr.reduces) er.push(g.rules[size_t(r)].slot); d.set("expected_reductions", er);
                vj::Value orr = vj::Value::array(); for (auto& rc : o.log.rules) orr.push(rc.slot); d.set("observed_functor_calls", orr);
                return fail(prop == C05 ? "expression grouped against the documented precedence/associativity rules" : "result differs from the bottom-up evaluation of the derivation tree", d);
            }
            if (prop == C02)
            {
                // functor call log == post-order of the tree: functors exist for slots whose kind is not 'd' (default construction)
                const auto& slots = TT::slots();
                std::vector<std::pair<int, uint64_t>> expc;
                for (auto& cl : e.rr.calls) { int slot = g.rules[size_t(cl.first)].slot; if (slots[size_t(slot)].kind != 'd') expc.push_back({slot, cl.second}); }
                bool same = expc.size() == o.log.rules.size();
                for (size_t i = 0; same && i < expc.size(); ++i) if (expc[i].first != o.log.rules[i].slot || expc[i].second != o.log.rules[i].value) same = false;
                if (!same)
                {
                    auto d = fail_detail(k, in);
                    vj::Value er = vj::Value::array(); for (auto& x : expc) er.push(x.first); d.set("expected_calls", er);
                    vj::Value orr = vj::Value::array(); for (auto& rc : o.log.rules) orr.push(rc.slot); d.set("observed_calls", orr);
                    return fail("rule functor calls are not the post-order traversal of the derivation tree", d);
                }
                // every term value that reaches a functor is the term functor's result on exactly its lexeme
                if (o.log.terms.size() != e.L.toks.size()) { auto d = fail_detail(k, in); d.set("term_functor_calls", (unsigned long long)o.log.terms.size()); d.set("tokens", (unsigned long long)e.L.toks.size()); return fail("term functors were not called once per term", d); }
                size_t ti = 0, off = 0;
                gg::Lexed L2 = e.L;
                // recompute byte offsets of tokens
                std::vector<size_t> offs; { int line = 1, col = 1; (void)line; (void)col; for (size_t i = 0; i < in.text.size(); ++i) { unsigned char ch = (unsigned char)in.text[i]; if (ch >= 'a' && ch <= 'f') offs.push_back(i); } }
                (void)ti; (void)off; (void)L2;
                for (size_t i = 0; i < o.log.terms.size(); ++i)
                {
                    const auto& tc = o.log.terms[i];
                    if (tc.term != e.L.toks[i].term || tc.size != 1 || size_t(reinterpret_cast<uintptr_t>(tc.data)) != offs[i])
                    { auto d = fail_detail(k, in); d.set("token", (unsigned long long)i); return fail("a term functor did not receive exactly its lexeme slice of the caller's buffer", d); }
                }
            }
            ++acc;
            bool arity2 = false; for (int r : e.rr.reduces) if (g.rules[size_t(r)].rhs.size() >= 2) arity2 = true;
            if (prop == C02 && e.rr.internal_nodes >= 3 && arity2) ++interesting;
            if (prop == C05) ++interesting;
            continue;
        }
        if (prop == C09 || prop == C10 || prop == C08)
        {
            Obs o = R::observe(in, false, 1 + int(k % 2), int((k / 2) % 3));
            st.sub_evaluations += st.counting ? 1 : 0;
            if (o.threw) { auto d = fail_detail(k, in); d.set("exception", o.exc); d.set("buffer", o.checked ? "checked user buffer" : "library buffer"); return fail(o.checked ? "parse moved a buffer iterator outside [begin, end] or threw" : "parse threw", d); }
            if (prop == C09 && o.checked && !o.has && !e.rr.error_tokens.empty() && e.rr.error_token < int(e.L.toks.size()) && o.any_deref)
            {
                // "reported before any later input is examined": the offending single-character term needs at most one byte of look-ahead
                size_t off = 0; { size_t seen = 0; for (size_t i = 0; i < in.text.size(); ++i) { unsigned char ch = (unsigned char)in.text[i]; if (ch >= 'a' && ch <= 'f') { if (int(seen) == e.rr.error_token) { off = i; break; } ++seen; } } }
                if (o.max_deref > off + 1)
                { auto d = fail_detail(k, in); d.set("offending_term_offset", (unsigned long long)off); d.set("highest_byte_examined", (unsigned long long)o.max_deref); return fail("input after the offending term was examined before the error was reported", d); }
            }
            bool exp_ok = e.rr.accepted;
            if (o.has != exp_ok)
            {
                auto d = fail_detail(k, in); d.set("expected_success", exp_ok); d.set("observed_success", o.has); d.set("error_stream", o.err);
                if (prop == C08) { d.set("recovered", e.rr.recovered); d.set("fail_empty_stack", e.rr.fail_empty_stack); d.set("fail_eof_discard", e.rr.fail_eof_discard); }
                return fail(prop == C08 ? "recovery outcome differs from the documented algorithm" : (exp_ok ? "input in the language rejected" : "input outside the language accepted (silent failure)"), d);
            }
            std::vector<Msg> got, want = expected_msgs(g, e);
            bool parsed = parse_msgs(o.err, got);
            if (prop == C09 || prop == C08)
            {
                if (!parsed || !same_msgs(got, want))
                {
                    auto d = fail_detail(k, in); d.set("error_stream", o.err); d.set("expected_messages", msgs_json(want)); if (parsed) d.set("observed_messages", msgs_json(got));
                    std::string what = "error report differs: ";
                    if (!parsed) what += "unrecognised text";
                    else if (got.size() != want.size()) what += (want.empty() ? "output written on a successful parse" : got.empty() ? "silent failure" : "wrong number of messages");
                    else what += "wrong position, kind or term";
                    return fail(what, d);
                }
            }
            if (prop == C08 && o.has && o.value != e.rr.value)
            {
                auto d = fail_detail(k, in); d.set("expected_value", (unsigned long long)e.rr.value); d.set("observed_value", (unsigned long long)o.value); d.set("max_pop", e.rr.max_pop);
                return fail("values kept/discarded by recovery differ from the documented algorithm", d);
            }
            if (prop == C10)
            {
                if (parsed && !same_msgs(got, want) && got.size() == want.size())
                {
                    bool pos_only = true; for (size_t i = 0; i < got.size(); ++i) if (got[i].kind != want[i].kind || got[i].s != want[i].s) pos_only = false;
                    if (pos_only) { auto d = fail_detail(k, in); d.set("error_stream", o.err); d.set("expected_messages", msgs_json(want)); return fail("position in an error message is not the true line/column", d); }
                }
                // term positions seen by the rule functors: match observed calls to expected calls by (slot,value)
                if (o.has || !e.rr.calls.empty())
                {
                    const auto& slots = TT::slots();
                    size_t oi = 0;
                    for (size_t ci = 0; ci < e.rr.calls.size() && oi < o.log.rules.size(); ++ci)
                    {
                        int slot = g.rules[size_t(e.rr.calls[ci].first)].slot;
                        if (slots[size_t(slot)].kind == 'd') continue;
                        const auto& oc = o.log.rules[oi++];
                        if (oc.slot != slot || oc.value != e.rr.calls[ci].second) break;   // value mismatch is C02/C08's business
                        const auto& ai = e.rr.call_args[ci];
                        for (size_t a = 0; a < ai.size() && a < oc.args.size(); ++a)
                            if (ai[a] >= 0)
                            {
                                const auto& tk = e.L.toks[size_t(ai[a])];
                                if (int(oc.args[a].line) != tk.line || int(oc.args[a].col) != tk.col || int(oc.args[a].sp_line) != tk.line || int(oc.args[a].sp_col) != tk.col)
                                {
                                    auto d = fail_detail(k, in); d.set("token", ai[a]); d.set("expected_line", tk.line); d.set("expected_col", tk.col); d.set("observed_line", (unsigned long long)oc.args[a].line); d.set("observed_col", (unsigned long long)oc.args[a].col); d.set("observed_get_sp_line", (unsigned long long)oc.args[a].sp_line); d.set("observed_get_sp_col", (unsigned long long)oc.args[a].sp_col);
                                    return fail("term value carries a wrong source point", d);
                                }
                            }
                    }
                }
                bool nl_before = false; for (size_t i = 1; i < e.L.toks.size(); ++i) if (e.L.toks[i].line > 1) nl_before = true;
                if (e.L.toks.size() >= 2 && nl_before) ++interesting;
                if (!e.rr.discarded_tokens.empty() && e.rr.error_tokens.size() + (o.has ? 1 : 0) >= 2) { ++interesting; case_labels.push_back("position-observed-after-recovery-discarded-terms"); }
            }
            if (o.has) ++acc; else ++rej;
            if (prop == C09 && !o.has && (e.rr.error_token > 0 || e.rr.lex_error_reached)) { ++interesting; if (e.rr.error_token == int(e.L.toks.size())) case_labels.push_back("error-at-eof"); if (e.rr.lex_error_reached) case_labels.push_back("lexical-error"); }
            if (only_lexical) { if (e.rr.lex_error_reached) { ++interesting; case_labels.push_back(e.rr.error_tokens.empty() ? "no-match-in-normal-mode" : "no-match-while-recovering"); } }
            else if (prop == C08 && !e.rr.error_tokens.empty())
            {
                ++interesting;
                if (e.rr.recovered) case_labels.push_back(o.has ? "recovered-success" : "recovered-then-failed");
                if (e.rr.max_pop == 0 && e.rr.recovered) case_labels.push_back("top-state-accepts-error");
                if (e.rr.max_pop >= 1) case_labels.push_back("pop-depth>=1");
                if (e.rr.max_pop >= 2) case_labels.push_back("pop-depth>=2");
                if (e.rr.error_tokens.size() >= 2) case_labels.push_back("several-errors");
                if (e.rr.fail_empty_stack) case_labels.push_back("fail-empty-stack");
                if (e.rr.fail_eof_discard) case_labels.push_back("fail-eof-while-discarding");
                if (e.rr.error_tokens[0] == 0) case_labels.push_back("error-at-first-token");
                if (!e.rr.discarded_tokens.empty()) case_labels.push_back("terms-discarded");
                if (e.rr.lex_error_reached) case_labels.push_back("lexical-error-during-recovery");
            }
            continue;
        }
        if (prop == C16)
        {
            Obs base = R::observe(in, false, 0, 0);
            Obs q1 = R::observe(in, false, 1, 0), q2 = R::observe(in, false, 2, 0);
            Obs v1 = R::observe(in, true, 1, 0), v2 = R::observe(in, true, 2, 0), v0 = R::observe(in, true, 0, 0);
            st.sub_evaluations += st.counting ? 6 : 0;
            const Obs* all[] = {&base, &q1, &q2, &v1, &v2, &v0};
            for (auto* o : all) if (o->threw) { auto d = fail_detail(k, in); d.set("exception", o->exc); return fail("parse threw", d); }
            for (auto* o : all)
                if (o->has != base.has || o->value != base.value)
                { auto d = fail_detail(k, in); d.set("base_success", base.has); d.set("other_success", o->has); return fail("result depends on verbosity or stream choice", d); }
            if (q1.err != q2.err || v1.err != v2.err) { auto d = fail_detail(k, in); return fail("output depends on the stream type", d); }
            // non-verbose lines appear unchanged, in order, in the verbose output
            {
                auto ql = dt::split_lines(q1.err), vl = dt::split_lines(v1.err); size_t j = 0;
                for (auto& l : ql) { while (j < vl.size() && vl[j] != l) ++j; if (j == vl.size()) { auto d = fail_detail(k, in); d.set("missing_line", l); return fail("a non-verbose message is missing from (or altered in) the verbose output", d); } ++j; }
            }
            // interpret the trace against the real table
            auto tr = dt::parse_trace(v1.err);
            std::vector<int> stck{0}; int la = -1; bool in_recovery = false; int last_lhs = -1;
            std::vector<int> reduces; std::vector<int> recognized; bool success = false;
            auto tfail = [&](const std::string& what, const dt::TraceLine& tl) { auto d = fail_detail(k, in); d.set("trace_line", tl.raw); return fail("verbose trace is not truthful: " + what, d); };
            auto termidx = [&](const std::string& n) { if (n == "<eof>") return g.eof(); if (n == "<error_recovery_token>") return g.err(); if (n.size() == 1 && n[0] >= 'a' && n[0] <= 'f') return int(n[0] - 'a'); return -1; };
            for (auto& tl : tr)
            {
                switch (tl.k)
                {
                case dt::TraceLine::RECOGNIZED: la = termidx(tl.s); if (la < 0) return tfail("unknown term name", tl); if (la != g.eof()) recognized.push_back(la); break;
                case dt::TraceLine::SHIFT:
                {
                    int t = tl.s == "<error_recovery_token>" ? g.err() : la;
                    if (t < 0) return tfail("shift without a recognised term", tl);
                    const auto& en = dump.rows[size_t(stck.back())][dump.nterm_count + size_t(t)];
                    if (!(en.kind == 2 || en.kind == 3) || en.arg != tl.n) return tfail("shift target differs from the table", tl);
                    stck.push_back(tl.n); break;
                }
                case dt::TraceLine::REDUCE:
                {
                    int t = in_recovery ? g.err() : la;
                    if (t < 0) return tfail("reduce without a recognised term", tl);
                    const auto& en = dump.rows[size_t(stck.back())][dump.nterm_count + size_t(t)];
                    if (!(en.kind == 4 || en.kind == 5) || dump.rule_of_info[size_t(en.arg)] != tl.n) return tfail("reduction differs from the table", tl);
                    if (!rule_of_slot.count(tl.n)) return tfail("reduction by a rule that is not in the grammar", tl);
                    const auto& ru = g.rules[size_t(rule_of_slot[tl.n])];
                    if (stck.size() <= ru.rhs.size()) return tfail("stack underflow", tl);
                    stck.resize(stck.size() - ru.rhs.size()); last_lhs = ru.lhs; reduces.push_back(tl.n); break;
                }
                case dt::TraceLine::GOTO:
                {
                    if (last_lhs < 0) return tfail("goto without reduction", tl);
                    const auto& en = dump.rows[size_t(stck.back())][size_t(last_lhs)];
                    if (en.arg != tl.n) return tfail("goto target differs from the table", tl);
                    stck.push_back(tl.n); last_lhs = -1; break;
                }
                case dt::TraceLine::SUCCESS: success = true; break;
                case dt::TraceLine::ENTER_RECOVERY: in_recovery = true; break;
                case dt::TraceLine::LEAVE_RECOVERY: in_recovery = false; break;
                case dt::TraceLine::RECOVERING_TO: if (stck.size() < 2) return tfail("pop on empty stack", tl); stck.pop_back(); if (stck.back() != tl.n) return tfail("recovering-to state differs from the stack", tl); break;
                default: break;
                }
            }
            if (success != base.has) { auto d = fail_detail(k, in); return fail("verbose trace is not truthful: Success line does not match the result", d); }
            {
                // ground truth for "actions performed": the functor calls of this very run (rules with a functor), and the table for the rest
                const auto& slots = TT::slots();
                std::vector<int> want; for (auto& rc : v1.log.rules) want.push_back(rc.slot);
                std::vector<int> traced; for (int r : reduces) if (slots[size_t(r)].kind != 'd') traced.push_back(r);
                if (traced != want)
                {
                    auto d = fail_detail(k, in); vj::Value a = vj::Value::array(); for (int r : want) a.push(r); d.set("performed_reductions", a); vj::Value b = vj::Value::array(); for (int r : traced) b.push(r); d.set("traced_reductions", b);
                    return fail("verbose trace is not truthful: reductions differ from the actions performed", d);
                }
                // recognised terms: the input's terms in order (a prefix when the parse stops early), at least as many as were shifted
                bool okr = recognized.size() <= e.L.toks.size();
                for (size_t i = 0; okr && i < recognized.size(); ++i) if (recognized[i] != e.L.toks[i].term) okr = false;
                if (recognized.size() < v1.log.terms.size()) okr = false;
                if (!okr) { auto d = fail_detail(k, in); return fail("verbose trace is not truthful: recognised terms differ from the input's terms", d); }
                size_t nshift = 0; for (auto& tl : tr) if (tl.k == dt::TraceLine::SHIFT && tl.s != "<error_recovery_token>") ++nshift;
                if (nshift != v1.log.terms.size()) { auto d = fail_detail(k, in); return fail("verbose trace is not truthful: shifts differ from the terms consumed", d); }
            }
            if (base.has) ++acc; else ++rej;
            if (v1.log.rules.size() >= 3) ++interesting;
            if (!e.rr.error_tokens.empty()) case_labels.push_back(e.rr.recovered ? "recovering-parse" : "failing-parse");
            continue;
        }
    }
    if (disagreements) st.count("harness-disagreement", disagreements);
    int reach = 0; for (int n = 0; n < g.nN; ++n) if (pr.an.reachable[size_t(n)]) ++reach;
    bool nontrivial = false;
    switch (prop)
    {
    case C01: nontrivial = (reach >= 2 || pr.an.left_rec || pr.an.right_rec) && acc > 0 && rej > 0; break;
    default: nontrivial = interesting > 0; break;
    }
    if (nontrivial && st.counting && st.nontriv(eng::hcomb(g.hash(), c.inputs.size())))
    {
        labels_for(g, pr, st, c);
        st.label("nontrivial");
        std::sort(case_labels.begin(), case_labels.end()); case_labels.erase(std::unique(case_labels.begin(), case_labels.end()), case_labels.end());
        for (auto& l : case_labels) st.label(l);
        if (T.has_sr) st.label("has-sr-conflicts");
        if (st.want_sample())
        {
            vj::Value s = vj::Value::object(); s.set("grammar", g.show()); s.set("template", c.tmpl == 0 ? "T36s" : "T20s"); s.set("inputs", (unsigned long long)c.inputs.size());
            s.set("accepted", (unsigned long long)acc); s.set("rejected", (unsigned long long)rej); s.set("nontrivial_inputs", (unsigned long long)interesting);
            s.set("lr1_states", (unsigned long long)T.states.size());
            s.set("example_input", c.inputs.empty() ? std::string() : c.inputs[c.inputs.size() / 2].text.substr(0, 300));
            st.sample(s);
        }
    }
    return Verdict::pass();
}

template<PropId PROP>
struct GP
{
    using Case = GCase;
    static const char* id()
    {
        switch (PROP) { case C01: return "C01"; case C02: return "C02"; case C05: return "C05"; case C08: return "C08"; case C09: return "C09"; case C10: return "C10"; case C11: return "C11"; case C04G: return "C04g"; case C12S: return "C12s"; case C02R: return "C02r"; default: return "C16"; }
    }
    static Case gen(Choice& ch)
    {
        switch (PROP)
        {
        case C01: return gen_case(ch, gg::CONFLICT_FREE, 6, false, false);
        case C02: return gen_case(ch, gg::CONFLICT_FREE, 12, false, false, true);
        case C05: return gen_case(ch, gg::PRECEDENCE, 16, false, false);
        case C08: case C02R: return gen_case(ch, gg::RECOVERY, 14, true, false);
        case C09: return gen_case(ch, gg::CONFLICT_FREE, 8, true, true);
        case C10: return gen_case(ch, ch.chance(1, 2) ? gg::RECOVERY : gg::CONFLICT_FREE, 12, true, true);   // positions after recovery-skipped terms too
        case C11: return gen_case(ch, gg::ANY, 4, false, false);
        case C12S:
        {
            // every case carries deep sentences: right recursion and nesting 1030..2600 rounds, and runs of more than 65535 terms
            GCase c = gen_case(ch, gg::CONFLICT_FREE, 2, false, false, false);
            eng::Rng rng = ch.fork(); ref::Analysis an = ref::analyse(c.g);
            for (int k = 0; k < 2; ++k)
            {
                std::vector<int> toks; size_t n = k == 0 ? 1030 + rng.below(4) * 520 : (rng.chance(1, 3) ? 65600 + rng.below(4000) : 4100 + rng.below(4200));
                if (gg::deep_sentence(c.g, an, n, rng, toks)) { c.inputs.push_back(gg::Input{gg::render(toks, nullptr)}); if (rng.chance(1, 3) && toks.size() > 4) { toks.resize(toks.size() - 1 - rng.below(3)); c.inputs.push_back(gg::Input{gg::render(toks, nullptr)}); } }
            }
            return c;
        }
        case C04G:
        {
            GCase c = gen_case(ch, gg::RECOVERY, 14, true, true);
            // many more unmatchable bytes, at every position (also behind the point where recovery started)
            eng::Rng rng = ch.fork(); static const char bad[] = {'z', '!', '\x80', '\0', '\xff', 'A', '#'};
            size_t n = c.inputs.size();
            for (size_t i = 0; i < n; ++i) if (c.inputs[i].text.size() >= 2 && c.inputs[i].text.size() < 300 && rng.chance(1, 3)) { gg::Input in = c.inputs[i]; in.text.insert(in.text.begin() + rng.below(uint32_t(in.text.size() + 1)), bad[rng.below(7)]); c.inputs.push_back(in); }
            return c;
        }
        default:  return gen_case(ch, gg::ANY, 8, true, true);
        }
    }
    static vj::Value to_json(const Case& c) { return gcase_to_json(c); }
    static Case from_json(const vj::Value& v) { return gcase_from_json(v); }
    static std::vector<Case> shrinks(const Case& c, const vj::Value& d) { return gcase_shrinks(c, d); }
    static Verdict eval(const Case& c, Stats& st)
    {
        if (c.tmpl == 0) return check_case<TT36>(PROP, c, st);
        return check_case<TT20>(PROP, c, st);
    }
};

// ---------------------------------------------------------------------------------------------------
// C08t: hand-written parsers through the public DSL (constructed at compile time) with value-type mixes the injection templates cannot
// express: a typed term whose value is no_type next to the error symbol (README's custom-lexer example uses such terms), recovery + precedence.
namespace fx
{
using namespace ctpg; using namespace ctpg::ftors;
constexpr uint64_t hmix(uint64_t x) { x += 0x9e3779b97f4a7c15ULL; x = (x ^ (x >> 30)) * 0xbf58476d1ce4e5b9ULL; x = (x ^ (x >> 27)) * 0x94d049bb133111ebULL; return x ^ (x >> 31); }
constexpr uint64_t hc(uint64_t h, uint64_t v) { return hmix(h * 0x100000001b3ULL + v + 0x632be59bd9b4e019ULL); }
constexpr uint64_t hs(std::string_view s) { uint64_t h = 1469598103934665603ULL; for (char c : s) h = hc(h, uint64_t(static_cast<unsigned char>(c))); return h; }
constexpr uint64_t th(int term, std::string_view lex) { return hc(hc(0x7e57, uint64_t(term)), hs(lex)); }
template<int... Map> struct TermIdx {};
// parser A: terms a=0, b=1, ';'=2 (typed, value no_type)
constexpr uint64_t valA(uint64_t v) { return v; }
constexpr uint64_t valA(const term_value<char>& t) { char c = t.get_value(); return th(c == 'a' ? 0 : 1, std::string_view(&c, 1)); }
constexpr uint64_t valA(const term_value<no_type>&) { return th(2, ";"); }
constexpr uint64_t valA(no_type) { return 0xe44044ULL; }
template<int R> struct FA { template<class... A> constexpr uint64_t operator()(A&&... a) const { uint64_t h = hc(0xabcd, uint64_t(R)); ((h = hc(h, valA(a))), ...); return h; } };
constexpr nterm<uint64_t> stmts("stmts"), stmt("stmt");
constexpr typed_term semi(char_term(';'), create<no_type>{});
constexpr parser parser_a(
    stmts, terms('a', 'b', semi), nterms(stmts, stmt),
    rules(
        stmts() >= FA<0>{},
        stmts(stmts, stmt) >= FA<1>{},
        stmt('a', semi) >= FA<2>{},
        stmt('b', 'a', semi) >= FA<3>{},
        stmt(error, semi) >= FA<4>{}
    ));
inline ref::Grammar grammar_a()
{
    ref::Grammar g; g.nT = 3; g.nN = 2; g.root = 0; g.tprec.assign(3, 0); g.tassoc.assign(3, ref::NONE);
    auto T = [](int t) { return ref::Sym{true, t}; }; auto N = [](int n) { return ref::Sym{false, n}; };
    auto add = [&](int lhs, std::vector<ref::Sym> rhs) { ref::Rule r; r.lhs = lhs; r.rhs = rhs; r.slot = int(g.rules.size()); g.rules.push_back(r); };
    add(0, {}); add(0, {N(0), N(1)}); add(1, {T(0), T(2)}); add(1, {T(1), T(0), T(2)}); add(1, {T(4), T(2)});
    return g;
}
// parser B: README's error-recovery example shape: terms n=0, '+'=1 (prec 1, ltor), ';'=2
constexpr uint64_t valB(uint64_t v) { return v; }
constexpr uint64_t valB(const term_value<char>& t) { char c = t.get_value(); return th(c == 'n' ? 0 : c == '+' ? 1 : 2, std::string_view(&c, 1)); }
constexpr uint64_t valB(no_type) { return 0xe44044ULL; }
template<int R> struct FB { template<class... A> constexpr uint64_t operator()(A&&... a) const { uint64_t h = hc(0xabcd, uint64_t(R)); ((h = hc(h, valB(a))), ...); return h; } };
constexpr nterm<uint64_t> exprs("exprs"), expr("expr");
constexpr char_term o_plus('+', 1, associativity::ltor);
constexpr parser parser_b(
    exprs, terms('n', o_plus, ';'), nterms(exprs, expr),
    rules(
        exprs() >= FB<0>{},
        exprs(exprs, expr, ';') >= FB<1>{},
        exprs(exprs, error, ';') >= FB<2>{},
        expr(expr, '+', expr) >= FB<3>{},
        expr('n') >= FB<4>{}
    ));
inline ref::Grammar grammar_b()
{
    ref::Grammar g; g.nT = 3; g.nN = 2; g.root = 0; g.tprec = {0, 1, 0}; g.tassoc = {ref::NONE, ref::LTOR, ref::NONE};
    auto T = [](int t) { return ref::Sym{true, t}; }; auto N = [](int n) { return ref::Sym{false, n}; };
    auto add = [&](int lhs, std::vector<ref::Sym> rhs) { ref::Rule r; r.lhs = lhs; r.rhs = rhs; r.slot = int(g.rules.size()); g.rules.push_back(r); };
    add(0, {}); add(0, {N(0), N(1), T(2)}); add(0, {N(0), T(4), T(2)}); add(1, {N(1), T(1), N(1)}); add(1, {T(0)});
    return g;
}
}

// parser C (for C02t): rules WITHOUT functor over value types whose construction from the right-side values is not a plain copy:
//   run(count, fill)  -> std::vector<int>(count, fill) ; run(count) -> std::vector<int>(count) ; pair(num, num) -> P(a, b) ; all(run) -> std::vector<int>(run)
namespace fx
{
struct Pr { int a = 0, b = 0; constexpr Pr() = default; constexpr Pr(int a, int b) : a(a), b(b) {} };
constexpr nterm<int> c_num("num"), c_count("count"), c_fill("fill");
constexpr nterm<std::vector<int>> c_run("run"), c_all("all");
constexpr nterm<Pr> c_pair("pair");
constexpr nterm<std::vector<int>> c_item("item");
constexpr char c_digit_pattern[] = "[0-9]";
constexpr regex_term<c_digit_pattern> c_digit("digit");
inline const auto& parser_c()
{
    static const auto* p = new parser(
        c_all, terms(c_digit, '*', ',', ':'), nterms(c_all, c_item, c_run, c_pair, c_count, c_fill, c_num),
        rules(
            c_num(c_digit) >= [](std::string_view sv) { return int(sv[0] - '0'); },
            c_count(c_num, '*') >= [](int n, skip) { return n; },
            c_fill(c_num),                                   // int from int
            c_run(c_count, c_fill),                          // std::vector<int>(count, fill)
            c_run(c_count),                                  // std::vector<int>(count)
            c_pair(c_num, ':', c_num) >= [](int a, skip, int b) { return Pr(a, b); },
            c_item(c_run),                                   // std::vector<int>(std::vector<int>&&)
            c_item(c_pair) >= [](Pr pr) { return std::vector<int>{-pr.a, -pr.b}; },
            c_all(c_item),
            c_all(c_all, ',', c_item) >= [](std::vector<int> a, skip, std::vector<int> b) { a.insert(a.end(), b.begin(), b.end()); return a; }
        ));
    return *p;
}
// independent evaluator over the text (no LR machinery): items separated by ','; item = d '*' d | d '*' | d ':' d
inline bool eval_c(const std::string& text, std::vector<int>& out)
{
    std::string t; for (char ch : text) if (!(ch == ' ' || ch == '\t' || ch == '\n' || ch == '\r' || ch == '\v' || ch == '\f')) t += ch;
    size_t p = 0; if (t.empty()) return false;
    while (true)
    {
        if (p >= t.size() || !isdigit((unsigned char)t[p])) return false;
        int a = t[p++] - '0';
        if (p < t.size() && t[p] == '*')
        {
            ++p;
            if (p < t.size() && isdigit((unsigned char)t[p])) { int b = t[p++] - '0'; for (int i = 0; i < a; ++i) out.push_back(b); }
            else for (int i = 0; i < a; ++i) out.push_back(0);
        }
        else if (p < t.size() && t[p] == ':')
        {
            ++p; if (p >= t.size() || !isdigit((unsigned char)t[p])) return false;
            int b = t[p++] - '0'; out.push_back(-a); out.push_back(-b);
        }
        else return false;
        if (p == t.size()) return true;
        if (t[p] != ',') return false;
        ++p;
    }
}
}

struct P_C02t
{
    struct Case { std::vector<std::string> inputs; };
    static const char* id() { return "C02t"; }
    static Case gen(Choice& ch)
    {
        Case c; eng::Rng rng = ch.fork(); int n = 3 + int(ch.below(8));
        for (int i = 0; i < n; ++i)
        {
            std::string s; int items = 1 + int(rng.below(5));
            for (int k = 0; k < items; ++k)
            {
                if (k) s += rng.chance(1, 4) ? " , " : ",";
                int a = int(rng.below(10)), b = int(rng.below(10));
                switch (rng.below(3)) { case 0: s += std::to_string(a) + "*" + std::to_string(b); break; case 1: s += std::to_string(a) + "*"; break; default: s += std::to_string(a) + ":" + std::to_string(b); break; }
            }
            if (rng.chance(1, 6) && !s.empty()) s[rng.below(uint32_t(s.size()))] = "*:,7x"[rng.below(5)];
            c.inputs.push_back(s);
        }
        return c;
    }
    static vj::Value to_json(const Case& c) { vj::Value o = vj::Value::object(); o.set("kind", "fixed-parser-C"); vj::Value a = vj::Value::array(); for (auto& s : c.inputs) a.push(s); o.set("inputs", a); return o; }
    static Case from_json(const vj::Value& v) { Case c; for (size_t i = 0; i < v.at("inputs").size(); ++i) c.inputs.push_back(v.at("inputs").at(i).as_str()); return c; }
    static std::vector<Case> shrinks(const Case& c, const vj::Value& d)
    {
        std::vector<Case> out;
        if (d.has("input_index") && c.inputs.size() > 1) { size_t k = size_t(d.at("input_index").as_int()); if (k < c.inputs.size()) { Case x; x.inputs = {c.inputs[k]}; out.push_back(x); } }
        if (c.inputs.size() == 1) for (size_t p = 0; p < c.inputs[0].size(); ++p) { Case x = c; x.inputs[0].erase(p, 1); out.push_back(x); }
        return out;
    }
    static Verdict eval(const Case& c, Stats& st)
    {
        size_t interesting = 0;
        for (size_t k = 0; k < c.inputs.size(); ++k)
        {
            std::vector<int> want; bool ok = fx::eval_c(c.inputs[k], want);
            std::optional<std::vector<int>> got; ctpg::utils::no_stream ns; bool threw = false; std::string exc;
            try { got = fx::parser_c().parse(ctpg::parse_options{}, ctpg::buffers::string_buffer(std::string(c.inputs[k])), ns); } catch (const std::exception& e) { threw = true; exc = e.what(); }
            st.sub_evaluations += st.counting ? 1 : 0;
            vj::Value d = vj::Value::object(); d.set("input_index", (unsigned long long)k); d.set("input", c.inputs[k]);
            if (threw) { d.set("exception", exc); return Verdict::fail("parse threw", d); }
            if (got.has_value() != ok) { d.set("expected_accept", ok); return Verdict::fail("acceptance differs from the grammar", d); }
            if (ok && got.value() != want)
            {
                vj::Value w = vj::Value::array(); for (int x : want) w.push(x); vj::Value g = vj::Value::array(); for (int x : got.value()) g.push(x); d.set("expected", w); d.set("observed", g);
                return Verdict::fail("a rule without functor did not construct the left-side value from its right-side values (L(values...))", d);
            }
            if (ok && want.size() >= 3) ++interesting;
        }
        if (interesting && st.counting && st.nontriv(eng::hstr(to_json(c).dump()))) { st.label("nontrivial"); st.label("fixed-parser:C(default functors over vector / pair / int)"); if (st.want_sample()) st.sample(to_json(c)); }
        return Verdict::pass();
    }
};


// ---------------------------------------------------------------------------------------------------
// C02h: the library's helper functors as rule functors in a parser written in the DSL (C02 quantifies over "helper functors" too):
// push_back / emplace_back with the container before and after the element and with leading / separating symbols of different counts,
// _eN at several positions, val, create, construct; plain int / std::vector<int> values, so that a wrongly selected right-side value
// (e.g. the separator's character) still converts and shows up in the RESULT, compared with an independent evaluation of the text.
namespace fh
{
using namespace ctpg; using namespace ctpg::ftors;
using IV = std::vector<int>;
struct Top { IV ll, rl, wl, vl; int tag = 0; bool operator==(const Top& o) const { return ll == o.ll && rl == o.rl && wl == o.wl && vl == o.vl && tag == o.tag; } };
constexpr char h_num_pattern[] = "[0-9]+";
struct h_limits { static const size_t state_count_cap = 200; static const size_t max_sit_count_per_state_cap = 200; };   // (the default limits make the analyzer too big for the engine's stack)
inline const auto& parser_h()
{
    static const auto* p = []
    {
        constexpr nterm<int> num("num"), tag("tag");
        constexpr nterm<long> wide("wide");      // a left-side type that differs from its functor's return type (int), both being value types of the grammar
        constexpr nterm<IV> ll("ll"), rl("rl"), wl("wl"), vl("vl");
        constexpr nterm<Top> top("top");
        constexpr regex_term<h_num_pattern> number("number");
        // a NAMED functor object (an lvalue) with state: the rule keeps a copy of it as it was when the rule was written; it is reconfigured right after construction
        struct NumF { int bias = 0; int operator()(std::string_view sv) const { int v = 0; for (char c : sv) v = (v * 10 + (c - '0')) % 100000; return (v + bias) % 100000; } };
        static NumF numf;
        numf.bias = 0;
        auto* built = new parser(
            top, terms(number, ',', ';', ':', '(', ')', '[', ']', '!', '#'), nterms(top, ll, rl, wl, vl, num, tag, wide),
            rules(
                top(ll, ';', rl, ';', wl, ';', vl, tag) >= [](IV&& a, skip, IV&& b, skip, IV&& c, skip, IV&& d, int t) { return Top{std::move(a), std::move(b), std::move(c), std::move(d), t}; },
                num(number) >= numf,
                num('(', num, ')') >= _e2,
                num('[', '[', num, ']', ']') >= _e3,
                ll(num) >= construct<IV>{},                                  // IV{n}: a one-element list
                ll(num, '!') >= construct<IV, 1>{},                          // construct<T, 1> with symbols AFTER the chosen one: they are ignored (T could be built from them too)
                ll(ll, ',', num) >= push_back<1, 3>{},                       // container first, one symbol between
                rl(num) >= construct<IV, 1>{},
                rl(num, ',', rl) >= push_back<3, 1>{},                       // element first, one symbol between (lead 0, gap 1)
                wl('!') >= create<IV>{},
                wl('(', num, ':', ':', wl) >= emplace_back<5, 2>{},          // element first with a leading symbol and two between (lead 1, gap 2)
                vl('!') >= create<IV>{},
                vl(vl, ':', '(', num) >= emplace_back<1, 4>{},               // container first, two between
                tag() >= val(7),
                wide(num) >= [](int v) { return v; },                        // returns int, the node is a long
                tag('#', wide) >= [](skip, long w) { return int(w % 100000); }
            ),
            use_generated_lexer{}, h_limits{});
        numf.bias = 4242;
        return built;
    }();
    return *p;
}
// independent evaluation (no LR machinery): ll ; rl ; wl ; vl tag
inline bool eval_h(const std::string& text, Top& out)
{
    // blanks separate terms: two numbers separated only by blanks stay two terms (marked with a byte that nothing accepts)
    std::string t; bool gap = false;
    for (char c : text) { if (c == ' ' || c == '\t' || c == '\n' || c == '\r' || c == '\v' || c == '\f') { gap = true; continue; } if (gap && !t.empty() && isdigit((unsigned char)t.back()) && isdigit((unsigned char)c)) t += '\x01'; gap = false; t += c; }
    size_t p = 0;
    std::function<bool(int&)> num = [&](int& v) -> bool
    {
        if (p < t.size() && isdigit((unsigned char)t[p])) { v = 0; while (p < t.size() && isdigit((unsigned char)t[p])) v = (v * 10 + (t[p++] - '0')) % 100000; return true; }
        if (p < t.size() && t[p] == '(') { ++p; if (!num(v)) return false; if (p >= t.size() || t[p] != ')') return false; ++p; return true; }
        if (p + 1 < t.size() && t[p] == '[' && t[p + 1] == '[') { p += 2; if (!num(v)) return false; if (p + 1 >= t.size() || t[p] != ']' || t[p + 1] != ']') return false; p += 2; return true; }
        return false;
    };
    auto expect = [&](char c) { if (p < t.size() && t[p] == c) { ++p; return true; } return false; };
    int v = 0;
    // ll: num (',' num)*  in order
    if (!num(v)) return false; out.ll.push_back(v);
    if (p < t.size() && t[p] == '!') ++p;        // ll <- num '!' : the list holds the number only
    while (p < t.size() && t[p] == ',') { ++p; if (!num(v)) return false; out.ll.push_back(v); }
    if (!expect(';')) return false;
    // rl: num (',' num)*  : built from the tail -> reversed
    { std::vector<int> xs; if (!num(v)) return false; xs.push_back(v); while (p < t.size() && t[p] == ',') { ++p; if (!num(v)) return false; xs.push_back(v); } out.rl.assign(xs.rbegin(), xs.rend()); }
    if (!expect(';')) return false;
    // wl: ( '(' num ':' ':' )* '!'  : built from the tail -> reversed
    { std::vector<int> xs; while (p < t.size() && t[p] == '(') { size_t save = p; ++p; if (!num(v)) { p = save; return false; } if (!expect(':') || !expect(':')) return false; xs.push_back(v); } if (!expect('!')) return false; out.wl.assign(xs.rbegin(), xs.rend()); }
    if (!expect(';')) return false;
    // vl: '!' ( ':' '(' num )*  in order
    if (!expect('!')) return false;
    while (p + 1 < t.size() && t[p] == ':' && t[p + 1] == '(') { p += 2; if (!num(v)) return false; out.vl.push_back(v); }
    out.tag = 7;
    if (p < t.size() && t[p] == '#') { ++p; if (!num(v)) return false; out.tag = v; }
    return p == t.size();
}
}

struct P_C02h
{
    struct Case { std::vector<std::string> inputs; };
    static const char* id() { return "C02h"; }
    static Case gen(Choice& ch)
    {
        Case c; eng::Rng rng = ch.fork(); int n = 3 + int(ch.below(8));
        for (int i = 0; i < n; ++i)
        {
            std::function<std::string(int)> num = [&](int depth) -> std::string
            {
                uint32_t k = depth > 3 ? 5 : rng.below(6);
                if (k == 0) return "(" + num(depth + 1) + ")";
                if (k == 1) return "[[" + num(depth + 1) + "]]";
                return std::to_string(rng.below(rng.chance(1, 4) ? 100000 : 50));
            };
            auto sp = [&]() { return rng.chance(1, 5) ? std::string(rng.chance(1, 2) ? " " : "\n") : std::string(); };
            auto cnt = [&]() -> size_t { uint32_t k = rng.below(30); return k == 0 ? 1030 + rng.below(300) : k < 3 ? 20 + rng.below(60) : rng.below(6); };
            std::string s;
            { size_t k = 1 + cnt(); for (size_t j = 0; j < k; ++j) { if (j) s += "," + sp(); s += num(0); if (j == 0 && rng.chance(1, 3)) s += sp() + "!"; } }
            s += ";" + sp();
            { size_t k = 1 + cnt(); for (size_t j = 0; j < k; ++j) { if (j) s += "," + sp(); s += num(0); } }
            s += ";" + sp();
            { size_t k = cnt(); for (size_t j = 0; j < k; ++j) s += "(" + num(0) + "::" + sp(); s += "!"; }
            s += ";" + sp();
            { s += "!"; size_t k = cnt(); for (size_t j = 0; j < k; ++j) s += ":(" + num(0) + sp(); }
            if (rng.chance(1, 2)) s += "#" + num(0);
            if (rng.chance(1, 5) && !s.empty()) { size_t pos = rng.below(uint32_t(s.size())); switch (rng.below(3)) { case 0: s.erase(pos, 1); break; case 1: s.insert(pos, 1, ",;:()[]!#7"[rng.below(10)]); break; default: s[pos] = ",;:()[]!#7"[rng.below(10)]; break; } }
            c.inputs.push_back(s);
        }
        return c;
    }
    static vj::Value to_json(const Case& c) { vj::Value o = vj::Value::object(); o.set("kind", "fixed-parser-H(helper functors)"); vj::Value a = vj::Value::array(); for (auto& s : c.inputs) a.push(s); o.set("inputs", a); return o; }
    static Case from_json(const vj::Value& v) { Case c; for (size_t i = 0; i < v.at("inputs").size(); ++i) c.inputs.push_back(v.at("inputs").at(i).as_str()); return c; }
    static std::vector<Case> shrinks(const Case& c, const vj::Value& d)
    {
        std::vector<Case> out;
        if (d.has("input_index") && c.inputs.size() > 1) { size_t k = size_t(d.at("input_index").as_int()); if (k < c.inputs.size()) { Case x; x.inputs = {c.inputs[k]}; out.push_back(x); } }
        if (c.inputs.size() == 1) { const std::string& s = c.inputs[0]; for (size_t chunk = std::max<size_t>(s.size() / 2, 1); ; chunk /= 2) { for (size_t p = 0; p + chunk <= s.size(); p += chunk) { Case x = c; x.inputs[0].erase(p, chunk); out.push_back(x); } if (chunk <= 1) break; } }
        return out;
    }
    static Verdict eval(const Case& c, Stats& st)
    {
        size_t interesting = 0; bool deep = false;
        for (size_t k = 0; k < c.inputs.size(); ++k)
        {
            fh::Top want; bool ok = fh::eval_h(c.inputs[k], want);
            std::optional<fh::Top> got; ctpg::utils::no_stream ns; bool threw = false; std::string exc;
            try { got = fh::parser_h().parse(ctpg::parse_options{}, ctpg::buffers::string_buffer(std::string(c.inputs[k])), ns); } catch (const std::exception& e) { threw = true; exc = e.what(); }
            st.sub_evaluations += st.counting ? 1 : 0;
            vj::Value d = vj::Value::object(); d.set("input_index", (unsigned long long)k); d.set("input", c.inputs[k].size() > 500 ? c.inputs[k].substr(0, 500) + "..." : c.inputs[k]);
            if (threw) { d.set("exception", exc); return Verdict::fail("parse threw", d); }
            if (got.has_value() != ok) { d.set("expected_accept", ok); return Verdict::fail("acceptance differs from the grammar", d); }
            if (ok && !(got.value() == want))
            {
                auto arr = [](const std::vector<int>& v) { vj::Value a = vj::Value::array(); for (size_t i = 0; i < v.size() && i < 40; ++i) a.push(v[i]); return a; };
                const char* which = got->ll != want.ll ? "ll: push_back<1,3>" : got->rl != want.rl ? "rl: push_back<3,1>" : got->wl != want.wl ? "wl: emplace_back<5,2>" : got->vl != want.vl ? "vl: emplace_back<1,4>" : "tag: val / _e2";
                const std::vector<int>& g = got->ll != want.ll ? got->ll : got->rl != want.rl ? got->rl : got->wl != want.wl ? got->wl : got->vl;
                const std::vector<int>& w = got->ll != want.ll ? want.ll : got->rl != want.rl ? want.rl : got->wl != want.wl ? want.wl : want.vl;
                d.set("list", which); d.set("expected", arr(w)); d.set("observed", arr(g)); d.set("expected_tag", want.tag); d.set("observed_tag", got->tag);
                return Verdict::fail("a rule whose functor is one of the library's helpers did not yield the value of the derivation tree (wrong right-side value selected or lost)", d);
            }
            if (ok && want.ll.size() + want.rl.size() + want.wl.size() + want.vl.size() >= 5) ++interesting;
            if (ok && (want.rl.size() >= 1024 || want.wl.size() >= 1024)) deep = true;
        }
        if (interesting && st.counting && st.nontriv(eng::hstr(to_json(c).dump()))) { st.label("nontrivial"); st.label("fixed-parser:H(helper functors)"); if (deep) st.label("list>=1024-elements"); if (st.want_sample()) { vj::Value s = vj::Value::object(); vj::Value a = vj::Value::array(); for (auto& x : c.inputs) if (x.size() < 100) a.push(x); s.set("inputs", a); st.sample(s); } }
        return Verdict::pass();
    }
};

struct FCase { int which = 0; std::vector<gg::Input> inputs; };
struct P_C08t
{
    using Case = FCase;
    static const char* id() { return "C08t"; }
    static Case gen(Choice& ch)
    {
        Case c; c.which = int(ch.below(2)); eng::Rng rng = ch.fork();
        const char* alpha = c.which == 0 ? "ab;" : "n+;";
        int n = 4 + int(ch.below(10));
        for (int i = 0; i < n; ++i)
        {
            gg::Input in; int len = int(rng.below(14));
            for (int k = 0; k < len; ++k)
            {
                uint32_t r = rng.below(20);
                if (r < 14) in.text += alpha[rng.below(3)];
                else if (r < 17) in.text += " \n\t"[rng.below(3)];
                else if (r < 19) in.text += c.which == 0 ? "a;" : "n;";
                else in.text += "z?"[rng.below(2)];
            }
            if (rng.chance(1, 8)) in.skip_nl = false;
            c.inputs.push_back(in);
        }
        return c;
    }
    static vj::Value to_json(const Case& c)
    {
        vj::Value o = vj::Value::object(); o.set("kind", "fixed-parser"); o.set("parser", c.which == 0 ? "A: stmts()|stmts(stmts,stmt); stmt('a',semi)|stmt('b','a',semi)|stmt(error,semi), semi = typed_term(';', create<no_type>)" : "B: exprs()|exprs(exprs,expr,';')|exprs(exprs,error,';'); expr(expr,'+',expr)|expr('n'), '+' prec 1 ltor");
        o.set("which", c.which);
        vj::Value in = vj::Value::array(); for (auto& i : c.inputs) { vj::Value x = vj::Value::object(); x.set("hex", vj::hex(i.text)); x.set("text", i.text); x.set("ws", i.skip_ws); x.set("nl", i.skip_nl); in.push(x); } o.set("inputs", in);
        return o;
    }
    static Case from_json(const vj::Value& v)
    {
        Case c; c.which = int(v.at("which").as_int());
        for (size_t i = 0; i < v.at("inputs").size(); ++i) { const auto& x = v.at("inputs").at(i); gg::Input in; in.text = vj::unhex(x.at("hex").as_str()); in.skip_ws = x.at("ws").as_bool(true); in.skip_nl = x.at("nl").as_bool(true); c.inputs.push_back(in); }
        return c;
    }
    static std::vector<Case> shrinks(const Case& c, const vj::Value& d)
    {
        std::vector<Case> out;
        if (d.has("input_index") && c.inputs.size() > 1) { size_t k = size_t(d.at("input_index").as_int()); if (k < c.inputs.size()) { Case x = c; x.inputs = {c.inputs[k]}; out.push_back(x); } }
        if (c.inputs.size() <= 2) for (size_t k = 0; k < c.inputs.size(); ++k) for (size_t p = 0; p < c.inputs[k].text.size(); ++p) { Case x = c; x.inputs[k].text.erase(p, 1); out.push_back(x); }
        return out;
    }
    static Verdict eval(const Case& c, Stats& st)
    {
        static const ref::Grammar ga = fx::grammar_a(), gb = fx::grammar_b();
        const ref::Grammar& g = c.which == 0 ? ga : gb;
        static ref::Analysis ana = ref::analyse(ga), anb = ref::analyse(gb);
        static ref::Table ta = ref::build_lr1(ga, ana), tb = ref::build_lr1(gb, anb);
        const ref::Table& T = c.which == 0 ? ta : tb;
        const char* alpha = c.which == 0 ? "ab;" : "n+;";
        size_t interesting = 0;
        for (size_t k = 0; k < c.inputs.size(); ++k)
        {
            const gg::Input& in = c.inputs[k];
            // reference tokenisation over this parser's three single-character terms
            gg::Lexed L; { int line = 1, col = 1; for (size_t i = 0; i < in.text.size(); ++i) { unsigned char ch = (unsigned char)in.text[i]; bool ws = in.skip_ws && (ch == 9 || ch == 11 || ch == 12 || ch == 13 || ch == 32 || (ch == 10 && in.skip_nl)); if (ws) { if (ch == '\n') { ++line; col = 1; } else ++col; continue; } const char* q = strchr(alpha, ch); if (q && ch) { ref::Token t; t.term = int(q - alpha); t.lexeme = std::string(1, char(ch)); t.line = line; t.col = col; L.toks.push_back(t); ++col; continue; } L.lex_error = true; L.err_line = line; L.err_col = col; L.err_byte = ch; break; } L.eof_line = line; L.eof_col = col; }
            ref::RunResult rr = ref::run_lr(T, L.toks, false, L.lex_error);
            std::ostringstream os; bool has = false; uint64_t value = 0; bool threw = false; std::string exc;
            try
            {
                auto opts = ctpg::parse_options{}.set_skip_whitespace(in.skip_ws).set_skip_newline(in.skip_nl);
                if (c.which == 0) { auto r = fx::parser_a.parse(opts, ctpg::buffers::string_buffer(std::string(in.text)), os); has = r.has_value(); if (has) value = r.value(); }
                else { auto r = fx::parser_b.parse(opts, ctpg::buffers::string_buffer(std::string(in.text)), os); has = r.has_value(); if (has) value = r.value(); }
            }
            catch (const std::exception& e) { threw = true; exc = e.what(); }
            st.sub_evaluations += st.counting ? 1 : 0;
            vj::Value d = vj::Value::object(); d.set("input_index", (unsigned long long)k); d.set("input", in.text); d.set("error_stream", os.str());
            if (threw) { d.set("exception", exc); return Verdict::fail("parse threw during error recovery (value of the error symbol / typed term)", d); }
            if (has != rr.accepted) { d.set("expected_success", rr.accepted); return Verdict::fail("recovery outcome differs from the documented algorithm", d); }
            if (has && value != rr.value) return Verdict::fail("values kept/discarded by recovery differ from the documented algorithm", d);
            Expect e; e.L = L; e.rr = rr;
            std::vector<Msg> got, want;
            for (int ti : rr.error_tokens) { if (size_t(ti) < L.toks.size()) want.push_back(Msg{0, L.toks[size_t(ti)].line, L.toks[size_t(ti)].col, std::string(1, alpha[L.toks[size_t(ti)].term])}); else want.push_back(Msg{0, L.eof_line, L.eof_col, "<eof>"}); }
            if (rr.lex_error_reached) want.push_back(Msg{1, L.err_line, L.err_col, std::string(1, char(L.err_byte))});
            if (!parse_msgs(os.str(), got) || !same_msgs(got, want)) { d.set("expected_messages", msgs_json(want)); return Verdict::fail("error report differs", d); }
            if (!rr.error_tokens.empty()) ++interesting;
        }
        (void)g;
        if (interesting && st.counting && st.nontriv(eng::hstr(to_json(c).dump()))) { st.label("nontrivial"); st.label(c.which == 0 ? "fixed-parser:A(no_type typed term + error)" : "fixed-parser:B(recovery + precedence)"); if (st.want_sample()) st.sample(to_json(c)); }
        return Verdict::pass();
    }
};

// ---------------------------------------------------------------------------------------------------
// emit mode for the compiled tier (E9): generate grammars + inputs + expected results with the same generators and reference.
// Output: one JSON document {"cases":[{grammar, strategy, class, inputs:[{hex, ws, nl, accept, value, messages}]}]}
// ---- spelled terminals for the compiled tier: the six terminals get real term kinds (char / string / regex with or without a custom
// name / typed), names that are prefixes of each other, and a declaration order different from the index order.
struct Spelling { char kind; std::string text; std::string name; };     // kind: c char, s string, r regex "<letter>[0-9]+", R regex without custom name, t typed char term
struct SpellTable { std::vector<Spelling> sp; std::vector<int> decl_order; };
// The choice bytes are usually used up by the time the spelling is drawn (exhausted bytes read as 0 = the first menu entry, a plain char term), so the
// spelling comes from a PRNG seeded with the remaining bytes AND the grammar: still a pure function of the generated case.
struct SpellRng { eng::Rng r; uint32_t below(uint32_t n) { return r.below(n); } bool chance(uint32_t a, uint32_t b) { return r.chance(a, b); } };
static SpellTable make_spelling(Choice& ch0, uint64_t salt, const std::vector<int>& used)
{
    SpellRng ch{eng::Rng(eng::mix64(ch0.fork().next() ^ salt))};
    // per terminal a menu; several entries are proper prefixes of entries of other terminals ("<" / "<=", "b" / "be", "i" / "if")
    static const std::vector<std::vector<Spelling>> menu = {
        {{'c', "a", "a"}, {'s', "al", "al"}, {'r', "a[0-9]+", "anum"}, {'T', "a[0-9]+", "number"}},
        {{'c', "b", "b"}, {'s', "be", "be"}, {'s', "b", "b"}, {'R', "b[0-9]+", "r_b[0-9]+"}},
        {{'c', "c", "c"}, {'s', "<=", "<="}, {'s', "if", "if"}, {'t', "c", "c"}, {'c', "\x11", "\\x11"}},       // control characters whose \xHH names share a digit with '\x01' (same low nibble) ...
        {{'c', "d", "d"}, {'s', "<", "<"}, {'s', "i", "i"}, {'r', "d[0-9]+", "dnum"}, {'s', ";\n", ";\n"}},           // a string term with a line break inside
        {{'c', "e", "e"}, {'s', "end", "end"}, {'c', "\x01", "\\x01"}, {'s', "en", "en"}, {'c', std::string(1, '\0'), "\\x00"}},   // a char term that is the NUL byte
        {{'c', "f", "f"}, {'s', "==", "=="}, {'c', "=", "="}, {'t', "f", "f"}, {'c', "\x0e", "\\x0E"}}};                        // ... or its 16-block
    SpellTable t;
    for (size_t i = 0; i < 6; ++i) t.sp.push_back(menu[i][ch.below(uint32_t(menu[i].size() > 4 && ch.chance(1, 4) ? menu[i].size() : 4))]);
    if (getenv("EMIT_NAMED_TERMS"))
    {   // C09's programs: make sure terms with a display name different from their id (named regex terms, typed terms wrapping them) are frequent
        t.sp[0] = menu[0][3 - ch.below(2)];      // typed(named regex) by default, plain named regex sometimes
        if (ch.chance(1, 2)) t.sp[3] = menu[3][3];
    }
    // several control-character char terms at once (their ids are generated \xHH strings): C11's, C17's and C01's programs
    if (getenv("EMIT_CONTROL_TERMS") && ch.chance(1, 2)) { t.sp[4] = menu[4][2]; if (ch.chance(2, 3)) t.sp[2] = menu[2][4]; if (ch.chance(2, 3)) t.sp[5] = menu[5][4]; }
    // C10's programs: a string term with a line break inside is frequent; C07's programs: a char term that is the NUL byte - both on terminals the grammar uses
    if (getenv("EMIT_NEWLINE_TERM") && ch.chance(2, 3) && !used.empty()) t.sp[size_t(used[ch.below(uint32_t(used.size()))])] = menu[3][4];
    if (getenv("EMIT_NUL_TERM") && ch.chance(1, 2) && !used.empty()) { int u = used[ch.below(uint32_t(used.size()))]; if (t.sp[size_t(u)].text != menu[3][4].text) t.sp[size_t(u)] = menu[4][4]; }
    // two terminals must not share a spelling or a first letter with a regex spelling (keeps the reference tokeniser trivial)
    for (size_t i = 0; i < 6; ++i) for (size_t j = 0; j < i; ++j)
    {
        bool clash = t.sp[i].text == t.sp[j].text;
        auto isrx = [](char k) { return k == 'r' || k == 'R' || k == 'T'; };
        if (isrx(t.sp[i].kind) && t.sp[j].text[0] == t.sp[i].text[0]) clash = true;
        if (isrx(t.sp[j].kind) && t.sp[j].text[0] == t.sp[i].text[0]) clash = true;
        if (clash) t.sp[i] = menu[i][0];
    }
    // C01/C02's programs: the custom name of a regex term is only a display name, so it may repeat the id of another term (keyword "number" next to a
    // literal named "number"); rules must still bind every symbol to the term object that was written
    if (getenv("EMIT_SAME_NAMES") && ch.chance(1, 2))
    {
        std::vector<size_t> named, plain;
        for (size_t i = 0; i < 6; ++i) { if (t.sp[i].kind == 'r' || t.sp[i].kind == 'T') named.push_back(i); else if ((t.sp[i].kind == 'c' || t.sp[i].kind == 's' || t.sp[i].kind == 't') && t.sp[i].text[0] >= 0x20 && t.sp[i].text.find('\n') == std::string::npos) plain.push_back(i); }
        if (!named.empty() && !plain.empty()) t.sp[named[ch.below(uint32_t(named.size()))]].name = t.sp[plain[ch.below(uint32_t(plain.size()))]].text;
    }
    // C18's programs: display names of realistic length that share a long prefix (all terminals are custom terms there, named by these strings)
    if (getenv("EMIT_LONG_NAMES")) for (size_t i = 0; i < 6; ++i) t.sp[i].name = "string_literal_" + t.sp[i].name;
    for (int i = 0; i < 6; ++i) t.decl_order.push_back(i);
    for (int i = 5; i > 0; --i) std::swap(t.decl_order[size_t(i)], t.decl_order[ch.below(uint32_t(i + 1))]);
    return t;
}
static bool spell_match(const Spelling& s, const std::string& text, size_t p, size_t& len)
{
    if (s.kind == 'r' || s.kind == 'R' || s.kind == 'T')
    {
        if (p >= text.size() || text[p] != s.text[0]) return false;
        size_t q = p + 1; while (q < text.size() && text[q] >= '0' && text[q] <= '9') ++q;
        if (q == p + 1) return false;
        len = q - p; return true;
    }
    if (text.compare(p, s.text.size(), s.text) != 0) return false;
    len = s.text.size(); return true;
}
// reference tokeniser for spelled text: whitespace skipping, longest match, ties to the term declared first
static gg::Lexed lex_spelled(const SpellTable& t, const std::string& text, bool skip_ws, bool skip_nl)
{
    gg::Lexed L; int line = 1, col = 1; size_t p = 0;
    std::vector<int> rank(6); for (int k = 0; k < 6; ++k) rank[size_t(t.decl_order[size_t(k)])] = k;
    while (p < text.size())
    {
        unsigned char c = (unsigned char)text[p];
        bool is_ws = skip_ws && (c == 9 || c == 11 || c == 12 || c == 13 || c == 32 || (c == 10 && skip_nl));
        if (is_ws) { if (c == '\n') { ++line; col = 1; } else ++col; ++p; continue; }
        int best = -1; size_t bl = 0;
        for (int i = 0; i < 6; ++i) { size_t len = 0; if (spell_match(t.sp[size_t(i)], text, p, len)) { if (len > bl || (len == bl && best >= 0 && rank[size_t(i)] < rank[size_t(best)])) { best = i; bl = len; } } }
        if (best < 0) { L.lex_error = true; L.err_line = line; L.err_col = col; L.err_byte = c; L.err_offset = p; break; }
        ref::Token tk; tk.term = best; tk.lexeme = text.substr(p, bl); tk.line = line; tk.col = col; L.toks.push_back(tk);
        for (size_t k = 0; k < bl; ++k) { if (text[p + k] == '\n') { ++line; col = 1; } else ++col; }
        p += bl;
    }
    L.eof_line = line; L.eof_col = col;
    return L;
}
static std::string render_spelled(const SpellTable& t, const std::vector<ref::Token>& toks, eng::Rng& rng)
{
    static const char* seps[] = {" ", "  ", "\n", " \n ", "\t", "\r\n"};
    std::string s; if (rng.chance(1, 4)) s += seps[rng.below(6)];
    // C09's programs: now and then ONE lexeme of a regex term is 64 KiB long or longer (lengths around the 16-bit boundary)
    bool giant_left = getenv("EMIT_GIANT_LEXEME") && rng.chance(1, 12);
    for (auto& tk : toks)
    {
        const Spelling& sp = t.sp[size_t(tk.term)];
        if (sp.kind == 'r' || sp.kind == 'R' || sp.kind == 'T')
        {
            s += sp.text[0]; int nd = 1 + int(rng.below(3));
            if (giant_left && rng.chance(1, 2)) { giant_left = false; static const int lens[] = {65534, 65535, 65536, 70000}; nd = lens[rng.below(4)]; }
            for (int k = 0; k < nd; ++k) s += char('0' + rng.below(10));
        }
        else s += sp.text;
        s += seps[rng.below(6)];
    }
    return s;
}

static int emit_cases(const eng::Args& a)
{
    std::string params = "seed=" + std::to_string(a.seed) + " max_success=" + std::to_string(a.cases * 60) + " max_size=" + std::to_string(a.size) + " max_shrinks=0";
    setenv("RC_PARAMS", params.c_str(), 1);
    vj::Value cases = vj::Value::array(); size_t want = size_t(a.cases); std::set<uint64_t> seen;
    size_t per_class[3] = {0, 0, 0};
    rc::check("emit", [&]()
    {
        auto bytes = *rc::gen::container<std::vector<uint8_t>>(rc::gen::arbitrary<uint8_t>());
        if (cases.size() >= want) return;
        Choice ch(bytes);
        int cls = int(ch.weighted({5, 3, 3}));      // 0 conflict-free, 1 precedence (S/R), 2 recovery
        if (const char* only = getenv("EMIT_ONLY_CLASS")) cls = atoi(only);
        // gallery (C01/C02's programs): the first attempts are the seed grammars as written, one after the other - shapes that random mutation keeps only rarely
        // (no empty rule anywhere, indirect left recursion in a particular source order, ...) reach the DSL front end in every run
        static size_t attempts = 0; gg::force_seed() = -1;
        if (getenv("EMIT_SEED_GALLERY") && attempts < 18) { gg::force_seed() = int(attempts); cls = 0; }
        ++attempts;
        GCase c; c.tmpl = 0;
        c.g = gg::gen_grammar(ch, cls == 0 ? gg::CONFLICT_FREE : cls == 1 ? gg::PRECEDENCE : gg::RECOVERY, c.strategy, tpl::t36_slots());
        Grammar& g = c.g;
        const bool gallery = gg::force_seed() >= 0; gg::force_seed() = -1;
        if (g.rules.size() < 3 || g.rules.size() > (gallery ? 12u : 9u)) return;
        // compiled programs use the default functor only where it means "pass the nonterminal's value on"
        for (auto& r : g.rules) if (r.passthrough && !(r.rhs.size() == 1 && !r.rhs[0].term)) r.passthrough = false;
        // drop unused nonterminals' rules? no: unused symbols are part of the domain. But every nonterminal that is used must have been declared: all N0..N5 are.
        Prepared pr; pr.an = ref::analyse(g); pr.table = ref::build_lr1(g, pr.an, 120);
        if (pr.table.states.size() > 100 || pr.table.cells.size() != pr.table.states.size()) return;
        if (pr.table.has_rr) return;
        if (cls == 0 && !pr.table.conflict_free()) return;
        if (cls == 1 && (!pr.table.has_sr || g.uses_error())) return;
        if (cls == 2 && !g.uses_error()) return;
        if (per_class[cls] * 2 > want + 2 && !getenv("EMIT_ONLY_CLASS") && !gallery) return;
        { int reach = 0; for (int n = 0; n < g.nN; ++n) if (pr.an.reachable[size_t(n)]) ++reach; if (reach < 2 && !pr.an.left_rec && !pr.an.right_rec) return; }
        if (!seen.insert(g.hash()).second) return;
        eng::Rng rng = ch.fork();
        std::vector<gg::Input> all; gg::gen_inputs(g, pr.an, rng, 30, 10, all);
        // keep a varied subset: accepted, syntactically wrong at different positions, lexically wrong, empty, whitespace only
        std::vector<gg::Input> keep; std::set<std::string> texts;
        auto add = [&](const gg::Input& in) { if (in.text.size() <= 40 && texts.insert(in.text).second) keep.push_back(in); };
        for (size_t i = all.size(); i-- > 0 && keep.size() < 14;) add(all[i]);       // random derivations and mutants come last in `all`
        for (size_t i = 0; i < all.size() && keep.size() < 22; i += 1 + rng.below(3)) add(all[i]);
        { gg::Input in; in.text = "  \n\t "; add(in); in.text = ""; add(in); }
        for (int k = 0; k < 3 && !keep.empty(); ++k) { gg::Input in = keep[rng.below(uint32_t(keep.size()))]; static const char badb[] = {'z', '!', '@', '\0'}; in.text.insert(in.text.begin() + rng.below(uint32_t(in.text.size() + 1)), badb[rng.below(4)]); add(in); }      // a NUL byte is just another byte no term matches
        for (int k = 0; k < 2 && !keep.empty(); ++k) { gg::Input in = keep[rng.below(uint32_t(keep.size()))]; if (rng.chance(1, 2)) in.skip_nl = false; else in.skip_ws = false; in.text += rng.chance(1, 2) ? "\n a" : " b"; keep.push_back(in); }
        // half of the cases: real term kinds. Inputs are re-rendered with the spellings; the reference re-tokenises the new text.
        bool spelled = (ch.chance(1, 2) || getenv("EMIT_NAMED_TERMS") || getenv("EMIT_ALWAYS_SPELLED")) && !getenv("EMIT_NO_SPELLING");
        SpellTable spell; if (spelled) { std::set<int> ut = gg::used_terms(g); spell = make_spelling(ch, g.hash(), std::vector<int>(ut.begin(), ut.end())); }
        auto tname = [&](int t) -> std::string { if (t == g.eof()) return "<eof>"; if (t == g.err()) return "<error_recovery_token>"; return spelled ? spell.sp[size_t(t)].name : g.tname(t); };
        if (spelled)
        {
            std::vector<gg::Input> re; int ngiant = 0;
            for (auto& in : keep)
            {
                gg::Lexed L0 = gg::lex_ref(in.text, in.skip_ws, in.skip_nl);
                gg::Input n2; n2.skip_ws = true; n2.skip_nl = in.skip_nl;
                n2.text = render_spelled(spell, L0.toks, rng);
                if (L0.lex_error) n2.text += "@ ";
                if (!n2.skip_nl) { for (auto& chx : n2.text) if (chx == '\n' || chx == '\r') chx = ' '; }
                if (n2.text.size() <= 60) re.push_back(n2);
                else if (n2.text.size() > 65000 && ngiant < 2) { ++ngiant; re.push_back(n2); }       // at most two texts with a giant lexeme per grammar
            }
            keep = re;
        }
        vj::Value ins = vj::Value::array(); size_t nacc = 0, nrej = 0;
        for (auto& in : keep)
        {
            Expect e;
            if (spelled) { e.L = lex_spelled(spell, in.text, in.skip_ws, in.skip_nl); e.rr = ref::run_lr(pr.table, e.L.toks, false, e.L.lex_error); }
            else e = expect_for(pr, in);
            if (e.rr.looped || e.rr.hit_rr) continue;
            vj::Value x = vj::Value::object(); x.set("hex", vj::hex(in.text)); x.set("text", in.text); x.set("ws", in.skip_ws); x.set("nl", in.skip_nl);
            x.set("accept", e.rr.accepted); x.set("value", std::to_string((unsigned long long)e.rr.value));
            std::string msgs;
            for (int ti : e.rr.error_tokens)
            {
                int l, cc2; std::string nm;
                if (size_t(ti) < e.L.toks.size()) { l = e.L.toks[size_t(ti)].line; cc2 = e.L.toks[size_t(ti)].col; nm = tname(e.L.toks[size_t(ti)].term); } else { l = e.L.eof_line; cc2 = e.L.eof_col; nm = "<eof>"; }
                msgs += "[" + std::to_string(l) + ":" + std::to_string(cc2) + "] PARSE: Syntax error: Unexpected '" + nm + "'\n";
            }
            if (e.rr.lex_error_reached) msgs += "[" + std::to_string(e.L.err_line) + ":" + std::to_string(e.L.err_col) + "] PARSE: Unexpected character: " + std::string(1, char(e.L.err_byte)) + "\n";
            x.set("messages_hex", vj::hex(msgs)); x.set("tokens", (unsigned long long)e.L.toks.size()); x.set("max_depth", (unsigned long long)e.rr.max_depth);
            { vj::Value rs = vj::Value::array(); for (int r : e.rr.reduces) rs.push(g.rules[size_t(r)].slot); x.set("reduces", rs); }
            {   // digest of the source points that rule functors see in their term arguments, in call order (rules without functor make no call)
                uint64_t dg = 0x51ed;
                for (size_t ci = 0; ci < e.rr.calls.size() && ci < e.rr.call_args.size(); ++ci)
                {
                    int slot = g.rules[size_t(e.rr.calls[ci].first)].slot;
                    if (g.rules[size_t(e.rr.calls[ci].first)].passthrough) continue;       // rendered without a functor
                    for (int ti : e.rr.call_args[ci]) if (ti >= 0 && size_t(ti) < e.L.toks.size()) dg = eng::hcomb(dg, eng::hcomb(uint64_t(slot), uint64_t(e.L.toks[size_t(ti)].line) * 1000003ULL + uint64_t(e.L.toks[size_t(ti)].col)));
                }
                x.set("posdigest", std::to_string((unsigned long long)dg));
            }
            if (e.rr.error_tokens.size() <= 1 && !e.rr.recovered && (!g.uses_error() || e.rr.error_tokens.empty()))
            {   // the terms a verbose parse reports as recognised (display names), for parses without recovery: every term up to the offending one, <eof> when the end was looked at
                std::string rec; size_t upto = e.L.toks.size(); bool eof_seen = e.rr.accepted;
                if (!e.rr.accepted) { if (e.rr.lex_error_reached) upto = e.L.toks.size(); else { upto = size_t(e.rr.error_token) < e.L.toks.size() ? size_t(e.rr.error_token) + 1 : e.L.toks.size(); eof_seen = size_t(e.rr.error_token) >= e.L.toks.size(); } }
                for (size_t i = 0; i < upto; ++i) { rec += tname(e.L.toks[i].term); rec += '\x1f'; }
                if (eof_seen) rec += "<eof>\x1f";
                x.set("recognized_hex", vj::hex(rec)); x.set("shifted", (unsigned long long)e.rr.shifted_tokens.size());
            }
            x.set("kind", e.rr.accepted ? (e.rr.error_tokens.empty() ? "accepted" : "accepted-after-recovery") : (e.rr.lex_error_reached ? "lexical-failure" : "syntax-failure"));
            ins.push(x); if (e.rr.accepted) ++nacc; else ++nrej;
        }
        if (nacc == 0 || nrej == 0) return;
        vj::Value o = vj::Value::object(); o.set("grammar", ref::to_json(g)); o.set("strategy", c.strategy); o.set("class", cls == 0 ? "conflict-free" : cls == 1 ? "precedence" : "recovery"); o.set("inputs", ins);
        o.set("lr1_states", (unsigned long long)pr.table.states.size()); o.set("has_sr", pr.table.has_sr);
        if (spelled)
        {
            vj::Value sp = vj::Value::array();
            for (auto& x : spell.sp) { vj::Value y = vj::Value::object(); y.set("kind", std::string(1, x.kind)); y.set("text", x.text); y.set("name", x.name); sp.push(y); }
            o.set("spelling", sp);
            vj::Value od = vj::Value::array(); for (int x : spell.decl_order) od.push(x); o.set("decl_order", od);
        }
        cases.push(o); per_class[cls]++;
    });
    vj::Value doc = vj::Value::object(); doc.set("cases", cases);
    if (!a.out.empty()) vj::save(a.out, doc); else printf("%s\n", doc.dump().c_str());
    return cases.size() >= 1 ? 0 : 2;
}

int main(int argc, char** argv)
{
    eng::Args a = eng::parse_args(argc, argv);
    if (a.mode == "emit") return emit_cases(a);
    int rc = 2;
    tpl::on_big_stack([&]
    {
        if (a.prop == "C01") rc = eng::run_property<GP<C01>>(a);
        else if (a.prop == "C02") rc = eng::run_property<GP<C02>>(a);
        else if (a.prop == "C05") rc = eng::run_property<GP<C05>>(a);
        else if (a.prop == "C08") rc = eng::run_property<GP<C08>>(a);
        else if (a.prop == "C08t") rc = eng::run_property<P_C08t>(a);
        else if (a.prop == "C02t") rc = eng::run_property<P_C02t>(a);
        else if (a.prop == "C02h") rc = eng::run_property<P_C02h>(a);
        else if (a.prop == "C09") rc = eng::run_property<GP<C09>>(a);
        else if (a.prop == "C10") rc = eng::run_property<GP<C10>>(a);
        else if (a.prop == "C11") rc = eng::run_property<GP<C11>>(a);
        else if (a.prop == "C16") rc = eng::run_property<GP<C16>>(a);
        else if (a.prop == "C04g") rc = eng::run_property<GP<C04G>>(a);
        else if (a.prop == "C12s") rc = eng::run_property<GP<C12S>>(a);
        else if (a.prop == "C02r") rc = eng::run_property<GP<C02R>>(a);
        else { fprintf(stderr, "unknown --prop %s\n", a.prop.c_str()); rc = 2; }
    });
    return rc;
}

// Engine E5b (C14h / C14hm): the library's own list helpers inside a parse, over instrumented elements. A source of its own because it is
// built three ways: clang++ (ASan+UBSan), g++ (ASan) and clang++ with move-only elements. The two compilers differ in a way that matters here:
// clang 14 applies the implicit move of a returned rvalue-reference parameter (P1825) in C++17 mode, g++ 12 only from C++20 on, so a helper that
// says `return container;` instead of `return std::move(container);` copies the whole list under g++ and moves it under clang++.
#include <map>
#include "common/grammar_runner.hpp"
#include "common/templates_values.hpp"
using eng::Choice; using eng::Stats; using eng::Verdict;
// ---------------------------------------------------------------------------------------------------
// C14h: the library's own helper functors (emplace_back / push_back in both position orders, _eN) in a parser written in the DSL, over
// instrumented element values (copyable here, move-only in the -DVALUES_MOVE_ONLY build): left- and right-recursive lists.
namespace hl
{
using namespace ctpg; using namespace ctpg::ftors;
#ifdef VALUES_MOVE_ONLY
using NV = tv::TrackedT<false>;
#else
using NV = tv::TrackedT<true>;
#endif
using List = std::vector<NV>;
// the root value type: copyable in the copyable build, with a move constructor that is NOT noexcept (as hand-written value types often are)
struct Res
{
    List l, r;
    Res() = default;
    Res(List&& a, List&& b) : l(std::move(a)), r(std::move(b)) {}
    Res(Res&& o) : l(std::move(o.l)), r(std::move(o.r)) {}
    Res& operator=(Res&& o) { l = std::move(o.l); r = std::move(o.r); return *this; }
#ifndef VALUES_MOVE_ONLY
    Res(const Res&) = default;
    Res& operator=(const Res&) = default;
#endif
};
// the k-th element functor call of a parse may throw (a functor reporting a semantic error): the parse ends with that exception
inline thread_local long g_item_calls = 0, g_item_throw_at = -1;
struct item_failure : std::runtime_error { item_failure() : std::runtime_error("element functor failure injected by the harness") {} };
struct ItemF { NV operator()(char) const { if (g_item_calls++ == g_item_throw_at) throw item_failure(); return NV(tv::Fresh{}, false, 0); } };
struct One { List operator()(NV&& v) const { List l; l.reserve(2); l.emplace_back(std::move(v)); return l; } };
struct Join { Res operator()(List&& a, char, List&& b) const { return Res{std::move(a), std::move(b)}; } };
inline const auto& parser_h()
{
    static const auto* p = []
    {
        constexpr nterm<NV> item("item"); constexpr nterm<List> ll("ll"), rl("rl"); constexpr nterm<Res> top("top");
        return new parser(
            top, terms('x', ',', '+', ';', '(', ')'), nterms(top, ll, rl, item),
            rules(
                top(ll, ';', rl) >= Join{},
                ll(item) >= One{},
                ll(ll, ',', item) >= emplace_back<1, 3>{},          // container before the element
                rl(item) >= One{},
                rl(item, ',', rl) >= emplace_back<3, 1>{},          // element before the container
#ifndef VALUES_MOVE_ONLY
                ll(ll, '+', item) >= push_back<1, 3>{},             // push_back copies its element by design: copyable build only
                rl(item, '+', rl) >= push_back<3, 1>{},
#endif
                ll(ll, ',', error) >= _e1,
                item('x') >= ItemF{},
                item('(', item, ')') >= _e2
            ));
    }();
    return *p;
}
// independent evaluation of the text: top = L ';' R, lists of items separated by ',' or '+', item = x | '(' item ')'
struct Want { bool ok = false; size_t nl = 0, nr = 0, pushes = 0; };
inline Want eval_h(const std::string& text)
{
    Want w; std::string t; for (char c : text) if (!(c == ' ' || c == '\t' || c == '\n' || c == '\r' || c == '\v' || c == '\f')) t += c;
    size_t p = 0;
    auto item = [&]() { size_t depth = 0; while (p < t.size() && t[p] == '(') { ++depth; ++p; } if (p >= t.size() || t[p] != 'x') return false; ++p; while (depth) { if (p >= t.size() || t[p] != ')') return false; ++p; --depth; } return true; };
    auto list = [&](size_t& n) { if (!item()) return false; n = 1; while (p < t.size() && (t[p] == ',' || t[p] == '+')) {
#ifdef VALUES_MOVE_ONLY
            if (t[p] == '+') return false;
#endif
            if (t[p] == '+') ++w.pushes; ++p; if (!item()) return false; ++n; } return true; };
    if (!list(w.nl)) return w;
    if (p >= t.size() || t[p] != ';') return w;
    ++p;
    if (!list(w.nr)) return w;
    w.ok = p == t.size();
    return w;
}
}

// ---------------------------------------------------------------------------------------------------
// the fixed-capacity value stack: with a cstring_buffer<N> input and value types that are all default constructible and trivially destructible the
// parser keeps its values in a cvector instead of a std::vector. TD has no destructor but counts its copies and moves, so a value that is copied
// on its way over that stack shows.
namespace hc
{
using namespace ctpg; using namespace ctpg::ftors;
inline thread_local long g_copies = 0, g_moves = 0, g_fresh = 0;
struct TD
{
    int n = 0; int first = 0;
    constexpr TD() = default;
    constexpr TD(int n_, int f_) : n(n_), first(f_) {}
    TD(const TD& o) : n(o.n), first(o.first) { ++g_copies; }
    TD(TD&& o) noexcept : n(o.n), first(o.first) { ++g_moves; o.n = -1000000; }
    TD& operator=(const TD& o) { n = o.n; first = o.first; ++g_copies; return *this; }
    TD& operator=(TD&& o) noexcept { n = o.n; first = o.first; ++g_moves; o.n = -1000000; return *this; }
};
static_assert(std::is_trivially_destructible_v<TD> && !std::is_trivially_copyable_v<TD>);
inline const auto& parser_c()
{
    static const auto* p = []
    {
        constexpr nterm<TD> sum("sum"), item("item");
        return new parser(
            sum, terms('x', '+', '(', ')'), nterms(sum, item),
            rules(
                sum(item),
                sum(sum, '+', item) >= [](TD&& a, char, TD&& b) { TD r(std::move(a)); r.n += b.n; return r; },
                item('x') >= [](char) { return TD(1, int(++g_fresh)); },
                item('(', sum, ')') >= _e2
            ));
    }();
    return *p;
}
struct Got { bool has = false; int n = 0; int first = 0; bool threw = false; std::string exc; };
template<size_t N> Got run_n(const std::string& text)
{
    char arr[N + 1]; for (size_t i = 0; i < N; ++i) arr[i] = text[i]; arr[N] = 0;
    Got g; std::ostringstream os;
    try { auto r = parser_c().parse(parse_options{}, ctpg::buffers::cstring_buffer<N + 1>(arr), os); if (r.has_value()) { g.has = true; g.n = r.value().n; g.first = r.value().first; } }
    catch (const std::exception& e) { g.threw = true; g.exc = e.what(); }
    return g;
}
template<size_t N = 1> Got run_c(const std::string& text)
{
    if constexpr (N > 24) { (void)text; return Got{}; }
    else { if (text.size() == N) return run_n<N>(text); return run_c<N + 1>(text); }
}
// independent: blanks removed; sum = item ('+' item)*, item = x | '(' sum ')'; value = number of x
inline bool eval_c(const std::string& t, size_t& p, int& n)
{
    auto item = [&](auto& self_sum) -> bool { if (p < t.size() && t[p] == 'x') { ++p; ++n; return true; } if (p < t.size() && t[p] == '(') { ++p; if (!self_sum(self_sum)) return false; if (p < t.size() && t[p] == ')') { ++p; return true; } return false; } return false; };
    auto sum = [&](auto& self) -> bool { if (!item(self)) return false; while (p < t.size() && t[p] == '+') { ++p; if (!item(self)) return false; } return true; };
    return sum(sum);
}
}

struct P_C14h
{
    struct Case { std::vector<std::string> inputs; };
#ifdef VALUES_MOVE_ONLY
    static const char* id() { return "C14hm"; }
#else
    static const char* id() { return eng::args().prop == "C14hg" ? "C14hg" : "C14h"; }
#endif
    static Case gen(Choice& ch)
    {
        Case c; eng::Rng rng = ch.fork(); int n = 3 + int(ch.below(8));
        for (int i = 0; i < n; ++i)
        {
            std::string s; const bool plus_here = rng.chance(1, 12); (void)plus_here;
            auto list = [&](size_t k)
            {
                for (size_t j = 0; j < k; ++j)
                {
                    if (j)
                    {
#ifdef VALUES_MOVE_ONLY
                        s += (plus_here && rng.chance(1, 6)) ? "+" : ",";      // '+' is not part of the move-only build's language
#else
                        s += rng.chance(1, 3) ? "+" : ",";
#endif
                        if (rng.chance(1, 5)) s += " ";
                    }
                    int d = rng.chance(1, 3) ? 1 + int(rng.below(3)) : 0;
                    s += std::string(size_t(d), '('); s += "x"; s += std::string(size_t(d), ')');
                }
            };
            auto len = [&]() -> size_t { uint32_t k = rng.below(40); return k == 0 ? 1030 + rng.below(1100) : k < 4 ? 20 + rng.below(200) : 1 + rng.below(9); };
            list(len()); s += rng.chance(1, 4) ? " ; " : ";"; list(len());
            if (rng.chance(1, 3) && !s.empty())
            {
                size_t pos = rng.below(uint32_t(s.size()));
                switch (rng.below(4)) { case 0: s.erase(pos, 1); break; case 1: s.insert(pos, 1, ",;x()+z"[rng.below(7)]); break; case 2: s[pos] = ",;x()+"[rng.below(6)]; break; default: s.resize(pos); break; }
            }
            c.inputs.push_back(s);
        }
        return c;
    }
    static vj::Value to_json(const Case& c) { vj::Value o = vj::Value::object(); o.set("kind", "helper-list-parser"); vj::Value a = vj::Value::array(); for (auto& s : c.inputs) a.push(s); o.set("inputs", a); return o; }
    static Case from_json(const vj::Value& v) { Case c; for (size_t i = 0; i < v.at("inputs").size(); ++i) c.inputs.push_back(v.at("inputs").at(i).as_str()); return c; }
    static std::vector<Case> shrinks(const Case& c, const vj::Value& d)
    {
        std::vector<Case> out;
        if (d.has("input_index") && c.inputs.size() > 1) { size_t k = size_t(d.at("input_index").as_int()); if (k < c.inputs.size()) { Case x; x.inputs = {c.inputs[k]}; out.push_back(x); } }
        if (c.inputs.size() == 1)
        {
            const std::string& s = c.inputs[0];
            for (size_t chunk = s.size() / 2; chunk >= 1; chunk /= 2) { for (size_t p = 0; p + chunk <= s.size(); p += chunk) { Case x = c; x.inputs[0].erase(p, chunk); out.push_back(x); } if (chunk == 1) break; }
        }
        return out;
    }
    static Verdict eval(const Case& c, Stats& st)
    {
        size_t interesting = 0; bool any_recovery = false, any_deep = false, any_push = false;
        // the fixed-capacity value stack (cstring_buffer<N>, trivially destructible values): a text derived from the case's bytes
        for (size_t k = 0; k < c.inputs.size(); ++k)
        {
            std::string t; for (char ch : c.inputs[k]) { if (ch == 'x' || ch == '(' || ch == ')') t += ch; else if (ch == ',' || ch == '+') t += '+'; if (t.size() >= 24) break; }
            if (t.empty()) continue;
            size_t p = 0; int n = 0; const bool ok = hc::eval_c(t, p, n) && p == t.size();
            hc::g_copies = hc::g_moves = hc::g_fresh = 0;
            hc::Got g = hc::run_c<1>(t);
            st.sub_evaluations += st.counting ? 1 : 0;
            vj::Value d = vj::Value::object(); d.set("input_index", (unsigned long long)k); d.set("cstring_text", t); d.set("copies", (long long)hc::g_copies); d.set("moves", (long long)hc::g_moves);
            if (g.threw) { d.set("exception", g.exc); return Verdict::fail("parse through cstring_buffer threw", d); }
            if (g.has != ok || (ok && (g.n != n || g.first != 1))) return Verdict::fail("parse through cstring_buffer (fixed-capacity value stack): wrong result", d);
            if (hc::g_copies != 0) return Verdict::fail("values were copied on the fixed-capacity value stack (cstring_buffer input, trivially destructible value types): every shift and reduce must move", d);
            if (ok && n >= 3) st.label("cstring-fixed-stack-parse");
        }
        for (size_t k = 0; k < c.inputs.size(); ++k)
        {
            const std::string& text = c.inputs[k];
            hl::Want w = hl::eval_h(text);
            vj::Value d = vj::Value::object(); d.set("input_index", (unsigned long long)k);
            // first, for some texts: the same parse with an element functor that throws half-way: every value created so far must be destroyed when the
            // exception leaves parse(), and nothing of it may be left for the parse that follows
            if (w.ok && w.nl + w.nr >= 2 && (k + text.size()) % 3 == 0)
            {
                tv::reg().reset(); hl::g_item_calls = 0; hl::g_item_throw_at = long((w.nl + w.nr) / 2);
                bool thrown = false; std::ostringstream os0;
                try { auto r0 = hl::parser_h().parse(ctpg::parse_options{}, ctpg::buffers::string_buffer(std::string(text)), os0); (void)r0; } catch (const hl::item_failure&) { thrown = true; } catch (const std::exception& e) { hl::g_item_throw_at = -1; d.set("exception", e.what()); d.set("input", text.substr(0, 300)); return Verdict::fail("parse threw something other than the functor's exception", d); }
                hl::g_item_throw_at = -1;
                st.sub_evaluations += st.counting ? 1 : 0;
                d.set("input", text.size() > 400 ? text.substr(0, 400) + "..." : text);
                if (!thrown) return Verdict::fail("an exception thrown by a functor did not leave parse()", d);
                const tv::Registry& rg0 = tv::reg();
                d.set("constructions", (long long)rg0.constructions); d.set("destructions", (long long)rg0.destructions); d.set("still_alive", (unsigned long long)rg0.live.size());
                if (rg0.double_destroy || rg0.destroy_unknown) return Verdict::fail("a value was destroyed twice while an exception left parse()", d);
                if (rg0.constructions != rg0.destructions || !rg0.live.empty()) return Verdict::fail("values created before a functor threw were not destroyed when the exception left parse()", d);
                st.label("parse-ended-by-functor-exception");
            }
            tv::reg().reset(); hl::g_item_calls = 0; d.set("input", text.size() > 400 ? text.substr(0, 400) + "..." : text); d.set("input_bytes", (unsigned long long)text.size());
            bool threw = false; std::string exc; bool has = false; std::ostringstream os;
            {
                std::optional<hl::Res> got;
                try { got = hl::parser_h().parse(ctpg::parse_options{}, ctpg::buffers::string_buffer(std::string(text)), os); } catch (const std::exception& e) { threw = true; exc = e.what(); }
                st.sub_evaluations += st.counting ? 1 : 0;
                if (threw) { d.set("exception", exc); return Verdict::fail("parse threw", d); }
                has = got.has_value();
                bool recovered = os.str().find("Syntax error") != std::string::npos && has;
                if (recovered) any_recovery = true;
                if (w.ok && !has) { d.set("error_stream", os.str()); return Verdict::fail("a list in the language was rejected", d); }
                if (!w.ok && has && !recovered) return Verdict::fail("a text outside the language was accepted without any error report", d);
                if (w.ok)
                {
                    const hl::Res& r = got.value();
                    bool good = r.l.size() == w.nl && r.r.size() == w.nr;
                    // items are created left to right (value ids 1, 2, ...): the left-recursive list keeps that order, the right-recursive one is built from its tail
                    for (size_t i = 0; good && i < r.l.size(); ++i) if (r.l[i].vid != long(i + 1)) good = false;
                    for (size_t i = 0; good && i < r.r.size(); ++i) if (r.r[i].vid != long(w.nl + w.nr - i)) good = false;
                    if (!good)
                    {
                        vj::Value a = vj::Value::array(); for (auto& x : r.l) a.push((long long)x.vid); vj::Value b = vj::Value::array(); for (auto& x : r.r) b.push((long long)x.vid);
                        if (text.size() < 400) { d.set("left_ids", a); d.set("right_ids", b); } d.set("expected_left", (unsigned long long)w.nl); d.set("expected_right", (unsigned long long)w.nr);
                        return Verdict::fail("emplace_back / push_back / _eN did not append the element values in derivation order", d);
                    }
                    for (auto* lst : {&r.l, &r.r}) for (auto& x : *lst) if (x.moved_from) return Verdict::fail("a list element is a moved-from value", d);
                    d.set("element_copies", (long long)tv::reg().nterm_copies); d.set("push_back_appends", (unsigned long long)w.pushes);
                    // The root type's move constructor is not noexcept, which makes the library's value variant potentially-throwing to move: when the
                    // value stack (a std::vector, 1024 entries reserved) has to grow, std::vector COPIES its elements. That is the standard container's
                    // strong guarantee, not something C14 forbids, so copies are only counted for texts that cannot make the stack grow.
                    if (text.size() < 1000 && size_t(tv::reg().nterm_copies) > w.pushes) return Verdict::fail("element values were copied on their way into the list (emplace_back must move; push_back copies at most once)", d);
                    if (w.nl + w.nr >= 4) ++interesting;
                    if (w.nl + w.nr >= 1024) any_deep = true;
                    if (w.pushes) any_push = true;
                }
                else if (tv::reg().constructions >= 3) ++interesting;
            }
            // the result (if any) is gone: every value ever created has been destroyed exactly once
            const tv::Registry& rg = tv::reg();
            d.set("constructions", (long long)rg.constructions); d.set("destructions", (long long)rg.destructions); d.set("still_alive", (unsigned long long)rg.live.size());
            if (rg.double_destroy || rg.destroy_unknown) return Verdict::fail("a value was destroyed twice (or an object that was never constructed was destroyed)", d);
            if (rg.constructions != rg.destructions || !rg.live.empty()) return Verdict::fail("values created during the parse were not destroyed exactly once", d);
        }
        if (interesting && st.counting && st.nontriv(eng::hstr(to_json(c).dump())))
        {
            st.label("nontrivial"); st.label("helper-list-parser"); if (any_recovery) st.label("recovered-parse"); if (any_deep) st.label("list>=1024-elements"); if (any_push) st.label("push_back-used");
            if (st.want_sample()) { vj::Value s = vj::Value::object(); vj::Value a = vj::Value::array(); for (auto& x : c.inputs) if (x.size() < 120) a.push(x); s.set("inputs", a); st.sample(s); }
        }
        return Verdict::pass();
    }
};



int main(int argc, char** argv)
{
    eng::Args a = eng::parse_args(argc, argv);
    int rc = 2;
    eng::on_big_stack([&]
    {
        if (a.prop == "C14h" || a.prop == "C14hm" || a.prop == "C14hg") rc = eng::run_property<P_C14h>(a);
        else { fprintf(stderr, "unknown --prop %s\n", a.prop.c_str()); rc = 2; }
    });
    return rc;
}

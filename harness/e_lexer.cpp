// Engine E3: the generated lexer. The lexer automaton of a token-list template parser is rebuilt at run time with the real
// regex::add_term_data_to_dfa overloads (char / string / pattern) in terms(...) order - what create_lexer does (DESIGN.md A.3).
// Properties: C04 (longest match, first-listed priority, lexeme slices, Unexpected character), C10l (source points with
// multi-character and multi-line lexemes), C12l (lexer automaton size budget).
#include "common/access.hpp"
#include "common/ref_regex.hpp"
#include "common/bugmodel_merge.hpp"
#include "common/buffers.hpp"
#include "common/diag_text.hpp"
#include <sstream>

using eng::Choice; using eng::Stats; using eng::Verdict;

namespace lx
{
struct LV { uint64_t h = 0; };
struct TermCall { int term; const char* data; size_t size; };
struct RuleCall { int term; uint32_t line, col; uint64_t h; uint32_t sp_line = 0, sp_col = 0; };
struct Log { std::vector<TermCall> terms; std::vector<RuleCall> rules; bool empty_lexeme = false; void clear() { terms.clear(); rules.clear(); empty_lexeme = false; } };
inline thread_local Log* g_log = nullptr;
struct empty_lexeme_error : std::runtime_error { empty_lexeme_error() : std::runtime_error("term functor received an empty lexeme") {} };

template<int I>
struct LexF
{
    LV operator()(std::string_view sv) const
    {
        if (g_log) g_log->terms.push_back(TermCall{I, sv.data(), sv.size()});
        if (sv.empty()) { if (g_log) g_log->empty_lexeme = true; throw empty_lexeme_error(); }
        return LV{eng::hstr(std::string(sv))};
    }
};

constexpr size_t TERM_BUDGET = 300;
constexpr int NTERMS = 7;
inline const char* const term_ids[NTERMS] = {"t0", "t1", "t2", "t3", "t4", "t5", "t6"};

template<int I>
struct HTerm : ctpg::term
{
    using internal_value_type = LV;
    static const size_t dfa_size = TERM_BUDGET;
    static const bool is_trivial = false;
    constexpr const char* get_id() const { return term_ids[I]; }
    constexpr const char* get_name() const { return term_ids[I]; }
    constexpr char get_data() const { return char('a' + I); }      // placeholder; the lexer is rebuilt at run time
    LexF<I> get_ftor() const { return LexF<I>{}; }
};

template<int I>
struct ListF
{
    uint64_t operator()(uint64_t acc, const ctpg::term_value<LV>& tv) const
    {
        if (g_log) g_log->rules.push_back(RuleCall{I, tv.get_line(), tv.get_column(), tv.get_value().h, tv.get_sp().line, tv.get_sp().column});
        return eng::hcomb(eng::hcomb(acc, uint64_t(I)), tv.get_value().h);
    }
};
struct ListE { uint64_t operator()() const { return 0x11; } };

inline auto make_list_parser()
{
    using namespace ctpg;
    constexpr nterm<uint64_t> list("list");
    HTerm<0> t0; HTerm<1> t1; HTerm<2> t2; HTerm<3> t3; HTerm<4> t4; HTerm<5> t5; HTerm<6> t6;
    return parser(
        list,
        terms(t0, t1, t2, t3, t4, t5, t6),
        nterms(list),
        rules(
            list() >= ListE{},
            list(list, t0) >= ListF<0>{},
            list(list, t1) >= ListF<1>{},
            list(list, t2) >= ListF<2>{},
            list(list, t3) >= ListF<3>{},
            list(list, t4) >= ListF<4>{},
            list(list, t5) >= ListF<5>{},
            list(list, t6) >= ListF<6>{}
        )
    );
}
using ListParser = decltype(make_list_parser());
inline ListParser& list_parser()
{
    static ListParser* p = [] { ListParser* r = nullptr; eng::on_big_stack([&] { r = new ListParser(make_list_parser()); }); return r; }();
    return *p;
}
constexpr size_t LEXER_DFA = NTERMS * TERM_BUDGET;

struct TermSpec { int type = 0; std::string data; };    // 0 char, 1 string, 2 regex

template<class F, size_t... I>
bool dispatch_len_impl(size_t n, F& f, std::index_sequence<I...>)
{
    bool done = false;
    auto one = [&](auto ic) { if (!done && decltype(ic)::value == n) { f(ic); done = true; } };
    (one(std::integral_constant<size_t, I + 1>{}), ...);
    return done;
}
template<size_t Max, class F>
bool dispatch_len(size_t n, F&& f) { return dispatch_len_impl(n, f, std::make_index_sequence<Max>{}); }
constexpr size_t MAX_STR = 10, MAX_PAT = 28;

// create_lexer at run time, with the real overloads
inline void build_real_lexer(const std::vector<TermSpec>& ts)
{
    auto& p = list_parser();
    auto& sm = ctpg_verif::access::lexer_sm(p);
    sm.clear();
    ctpg::regex::dfa_builder<LEXER_DFA> b(sm);
    for (size_t i = 0; i < ts.size(); ++i)
    {
        const TermSpec& t = ts[i];
        if (t.type == 0) ctpg::regex::add_term_data_to_dfa(t.data[0], b, ctpg::size16_t(i));
        else if (t.type == 1)
        {
            bool ok = dispatch_len<MAX_STR>(t.data.size(), [&](auto ic)
            {
                constexpr size_t L = decltype(ic)::value;
                char arr[L + 1]; std::memcpy(arr, t.data.data(), L); arr[L] = 0;
                ctpg::regex::add_term_data_to_dfa(static_cast<const char(&)[L + 1]>(arr), b, ctpg::size16_t(i));
            });
            if (!ok) throw std::logic_error("string term too long for the harness dispatch");
        }
        else
        {
            bool ok = dispatch_len<MAX_PAT>(t.data.size(), [&](auto ic)
            {
                constexpr size_t L = decltype(ic)::value;
                char arr[L + 1]; std::memcpy(arr, t.data.data(), L); arr[L] = 0;
                ctpg::regex::regex_pattern_data<L + 1> pd{static_cast<const char(&)[L + 1]>(arr)};
                ctpg::regex::add_term_data_to_dfa(pd, b, ctpg::size16_t(i));
            });
            if (!ok) throw std::logic_error("pattern too long for the harness dispatch");
        }
    }
}
// the capacity the library derives for a term: Terms::dfa_size
inline size_t real_term_budget(const TermSpec& t)
{
    if (t.type == 0) return ctpg::char_term::dfa_size;
    size_t r = 0;
    if (t.type == 1) { dispatch_len<MAX_STR>(t.data.size(), [&](auto ic) { r = ctpg::string_term<decltype(ic)::value + 1>::dfa_size; }); return r; }
    // the real regex::analyze_dfa_size (what regex_term<P>::dfa_size is), instantiated per pattern length
    bool done = dispatch_len<MAX_PAT>(t.data.size(), [&](auto ic)
    {
        constexpr size_t N = decltype(ic)::value + 1;
        char arr[N]; std::memcpy(arr, t.data.data(), N - 1); arr[N - 1] = 0;
        const char (&ref)[N] = arr;
        r = ctpg::regex::analyze_dfa_size(ref);
    });
    if (!done) throw std::runtime_error("pattern too long for dispatch");
    return r;
}
inline void real_lexer_dfa(rx::Dfa& d)
{
    const auto& sm = ctpg_verif::access::lexer_sm(list_parser());
    d.tr.assign(sm.size(), {}); d.label.assign(sm.size(), -1);
    for (size_t i = 0; i < sm.size(); ++i)
    {
        const auto& st = sm[i];
        for (size_t c = 0; c < 256; ++c) { auto t = st.transitions[c]; d.tr[i][c] = t == ctpg::uninitialized16 ? -1 : int(t); }
        d.label[i] = st.conflicted_recognition[0] == ctpg::uninitialized16 ? -1 : int(st.conflicted_recognition[0]);
    }
}
}

// ---------------------------------------------------------------------------------------------------
struct LInput { std::string text; bool ws = true, nl = true; };
struct LCase { std::vector<lx::TermSpec> terms; std::vector<LInput> inputs; std::vector<std::string> labels; };

static rx::Ast literal_ast(const std::string& s)
{
    rx::Ast a; int e = -1;
    for (unsigned char c : s) { rx::Node n; n.k = rx::Node::SET; n.set.set(c); int x = a.add(n); if (e < 0) e = x; else { rx::Node cn; cn.k = rx::Node::CAT; cn.a = e; cn.b = x; e = a.add(cn); } }
    a.root = e; return a;
}

static vj::Value lcase_json(const LCase& c)
{
    vj::Value o = vj::Value::object(); o.set("kind", "lexer");
    vj::Value ts = vj::Value::array();
    for (auto& t : c.terms) { vj::Value x = vj::Value::object(); x.set("type", t.type == 0 ? "char" : t.type == 1 ? "string" : "regex"); x.set("data_hex", vj::hex(t.data)); x.set("data", t.data); ts.push(x); }
    o.set("terms", ts);
    vj::Value in = vj::Value::array();
    for (auto& i : c.inputs) { vj::Value x = vj::Value::object(); x.set("hex", vj::hex(i.text)); x.set("text", i.text); x.set("ws", i.ws); x.set("nl", i.nl); in.push(x); }
    o.set("inputs", in);
    return o;
}
static LCase lcase_from(const vj::Value& o)
{
    LCase c;
    for (size_t i = 0; i < o.at("terms").size(); ++i) { const auto& x = o.at("terms").at(i); lx::TermSpec t; std::string ty = x.at("type").as_str(); t.type = ty == "char" ? 0 : ty == "string" ? 1 : 2; t.data = vj::unhex(x.at("data_hex").as_str()); c.terms.push_back(t); }
    for (size_t i = 0; i < o.at("inputs").size(); ++i) { const auto& x = o.at("inputs").at(i); LInput in; in.text = vj::unhex(x.at("hex").as_str()); in.ws = x.at("ws").as_bool(true); in.nl = x.at("nl").as_bool(true); c.inputs.push_back(in); }
    return c;
}
static std::vector<LCase> lcase_shrinks(const LCase& c, const vj::Value& detail)
{
    std::vector<LCase> out;
    if (detail.has("input_index") && c.inputs.size() > 1) { size_t k = size_t(detail.at("input_index").as_int()); if (k < c.inputs.size()) { LCase d = c; d.inputs = {c.inputs[k]}; out.push_back(d); } }
    if (!detail.has("input_index") && !c.inputs.empty()) { LCase d = c; d.inputs.clear(); out.push_back(d); }
    for (size_t t = 0; t < c.terms.size(); ++t) if (c.terms.size() > 1) { LCase d = c; d.terms.erase(d.terms.begin() + long(t)); out.push_back(d); }
    if (c.inputs.size() <= 3)
        for (size_t k = 0; k < c.inputs.size(); ++k)
        {
            size_t n = c.inputs[k].text.size();
            if (n > 96) { for (size_t chunk = n / 2; chunk >= 16; chunk /= 2) for (size_t p = 0; p + chunk <= n && out.size() < 300; p += chunk) { LCase d = c; d.inputs[k].text.erase(p, chunk); out.push_back(d); } continue; }
            for (size_t p = 0; p < n; ++p) { LCase d = c; d.inputs[k].text.erase(p, 1); out.push_back(d); }
        }
    for (size_t t = 0; t < c.terms.size(); ++t)
        if (c.terms[t].type == 2)
            for (size_t i = 0; i < c.terms[t].data.size(); ++i)
                for (size_t len = 1; len <= 4 && i + len <= c.terms[t].data.size(); ++len)
                {
                    LCase d = c; d.terms[t].data.erase(i, len);
                    if (!d.terms[t].data.empty() && rx::parse_pattern(d.terms[t].data).cls == rx::VALID) out.push_back(d);
                }
    return out;
}

// term-set generator (DESIGN.md C.6)
static LCase gen_lcase(Choice& ch)
{
    LCase c;
    static const char* keywords[] = {"if", "in", "int", "i", "ab", "abab", "else", "a", "for", "<=", "<<", "<<=", "<", "==", "=", "a b"};
    static const char* patterns[] = {"[a-z]+", "[a-i][a-z0-9]*", "[0-9]+", "[0-9]+\\.[0-9]+", "[a-zA-Z_][a-zA-Z_0-9]*", "\"[^\"]*\"", "'[^']*'", "[1-9][0-9]*", "0|[1-9][0-9]*",
                                     "(a|b)+", "a+b?", "[a-c]+d", "//[^\\x0a]*", "/\\*([^*]|\\*+[^*/])*\\*+/", "#[^#]*#", "(ab)+", "a(b|c)*d", "[ \\x09]+", "\\x0a", "x{3}", "[0-9a-f]{2}", "<[a-z]*>", "i(f|n)",
                                     // ranges that cross 0x7f/0x80 or lie above it (string bodies, UTF-8), and literal blanks outside a set
                                     "\"[\\x20-\\x21\\x23-\\xff]*\"", "[^\\x00-\\x20]+", "[\\x7e-\\x81]", "\\xc3[\\x80-\\xbf]", "[a-\\xff]+;", "[0-9]+ [a-z]+", "a b*", "= ="};
    static const char* nullable[] = {"[0-9]*", "a?", "(ab)*", "x{0}"};
    static const char chars[] = {'a', 'i', '+', '-', ';', ',', '(', ')', '<', '=', '0', ' ', '\n', 'x', '"'};
    int n = 2 + int(ch.below(6)); if (n > lx::NTERMS) n = lx::NTERMS;
    std::set<std::string> used;
    for (int i = 0; i < n; ++i)
    {
        lx::TermSpec t;
        switch (ch.weighted({3, 4, 6, 2, 1}))
        {
        case 0: t.type = 0; t.data = std::string(1, chars[ch.below(sizeof chars)]); break;
        case 1: t.type = 1; t.data = keywords[ch.below(16)]; break;
        case 2: t.type = 2; t.data = patterns[ch.below(31)]; break;
        case 3:
        {   // small random pattern over a tiny alphabet
            t.type = 2; std::string s; int k = 1 + int(ch.below(3));
            for (int j = 0; j < k; ++j)
            {
                std::string a(1, "abi0"[ch.below(4)]);
                switch (ch.below(6)) { case 0: s += a + "*"; break; case 1: s += a + "+"; break; case 2: s += "(" + a + "|" + std::string(1, "abi0"[ch.below(4)]) + ")"; break; case 3: s += "[" + a + "-z]"; break; default: s += a; break; }
            }
            if (rx::parse_pattern(s).cls != rx::VALID) s = "a";
            // avoid nullable here (own label below)
            { rx::Parsed pp = rx::parse_pattern(s); rx::Dfa d; if (pp.ok && rx::ast_to_dfa(pp.ast, d) && d.label[0] >= 0) s += "a"; }
            t.data = s; break;
        }
        default: t.type = 2; t.data = nullable[ch.below(4)]; c.labels.push_back("nullable-term"); break;
        }
        std::string key = std::to_string(t.type) + ":" + t.data;
        if (used.count(key)) continue;
        used.insert(key);
        c.terms.push_back(t);
    }
    if (c.terms.empty()) { lx::TermSpec t; t.type = 0; t.data = "a"; c.terms.push_back(t); }
    // inputs: concatenations of lexemes sampled from each term's own language + whitespace + foreign bytes
    eng::Rng rng = ch.fork();
    std::vector<rx::Dfa> dfas;
    for (auto& t : c.terms)
    {
        rx::Dfa d; rx::Ast a;
        if (t.type == 2) { rx::Parsed p = rx::parse_pattern(t.data); if (p.ok) a = p.ast; else a = literal_ast("a"); } else a = literal_ast(t.data);
        rx::ast_to_dfa(a, d); dfas.push_back(d);
    }
    auto sample = [&](const rx::Dfa& d)
    {
        std::string s; int q = 0;
        for (int step = 0; step < 12; ++step)
        {
            if (d.label[size_t(q)] >= 0 && !s.empty() && rng.chance(1, 3)) break;
            std::vector<int> opts; for (int cc = 0; cc < 256; ++cc) if (d.tr[size_t(q)][size_t(cc)] >= 0) opts.push_back(cc);
            if (opts.empty()) break;
            // prefer printable bytes
            std::vector<int> pr; for (int x : opts) if (x >= 32 && x < 127) pr.push_back(x);
            int cc = (!pr.empty() && rng.chance(7, 8)) ? pr[rng.below(uint32_t(pr.size()))] : opts[rng.below(uint32_t(opts.size()))];
            s += char(cc); q = d.tr[size_t(q)][size_t(cc)];
        }
        return s;
    };
    static const char* wss[] = {" ", "\t", "\n", "\r", "\v", "\f", "  ", "\r\n", " \n ", "\n\n"};
    int nin = 3 + int(ch.below(6));
    for (int k = 0; k < nin; ++k)
    {
        LInput in; int nt = int(rng.below(9));
        for (int j = 0; j < nt; ++j)
        {
            if (rng.chance(1, 10)) in.text += std::string(1, "?@$~\x01\x80\xff\0\0"[rng.below(9)]);      // bytes outside every term, NUL included
            else in.text += sample(dfas[rng.below(uint32_t(dfas.size()))]);
            if (rng.chance(1, 2)) in.text += wss[rng.below(10)];
        }
        if (rng.chance(1, 5)) in.nl = false;
        if (rng.chance(1, 8)) in.ws = false;
        c.inputs.push_back(in);
    }
    // occasionally one lexeme of 65536..70000 bytes (lengths are size_t): a term whose automaton loops on some byte
    if (ch.chance(1, 10))
        for (size_t ti = 0; ti < dfas.size(); ++ti)
        {
            const rx::Dfa& d = dfas[ti]; int loop_state = -1, loop_byte = -1; std::string prefix;
            // walk a few steps, look for a self loop on a printable byte in an accepting state
            int q = 0;
            for (int step = 0; step < 6 && loop_state < 0; ++step)
            {
                for (int cc = 33; cc < 127; ++cc) if (d.tr[size_t(q)][size_t(cc)] == q && d.label[size_t(q)] >= 0) { loop_state = q; loop_byte = cc; break; }
                if (loop_state >= 0) break;
                int nxt = -1, nb = -1; for (int cc = 33; cc < 127; ++cc) if (d.tr[size_t(q)][size_t(cc)] >= 0) { nxt = d.tr[size_t(q)][size_t(cc)]; nb = cc; break; }
                if (nxt < 0) break;
                prefix += char(nb); q = nxt;
            }
            if (loop_state < 0) continue;
            LInput in; in.text = sample(dfas[rng.below(uint32_t(dfas.size()))]) + " " + prefix + std::string(65536 + rng.below(4500), char(loop_byte)) + " " + sample(dfas[rng.below(uint32_t(dfas.size()))]);
            c.inputs.push_back(in); c.labels.push_back("giant-lexeme");
            break;
        }
    return c;
}

struct RefTok { int term; size_t off, len; int line, col; };
struct RefLex { std::vector<RefTok> toks; bool error = false; size_t err_off = 0; int err_line = 0, err_col = 0; unsigned char err_byte = 0; size_t max_scan = 0; size_t steps = 0; };
// R3: whitespace skipping + longest match on a labelled DFA
static RefLex ref_lex(const rx::Dfa& d, const std::string& s, bool ws, bool nl)
{
    RefLex r; size_t p = 0; int line = 1, col = 1;
    auto adv = [&](size_t to) { for (; p < to; ++p) { if (s[p] == '\n') { ++line; col = 1; } else ++col; } };
    while (true)
    {
        if (ws) { size_t q = p; while (q < s.size()) { unsigned char c = (unsigned char)s[q]; if (c == 9 || c == 11 || c == 12 || c == 13 || c == 32 || (c == 10 && nl)) ++q; else break; } adv(q); }
        if (p >= s.size()) break;
        int q = d.size() ? 0 : -1; size_t best = 0; int bl = -1; size_t i = p;
        while (q >= 0 && i < s.size())
        {
            q = d.tr[size_t(q)][(unsigned char)s[i]]; if (++r.steps > 3000001) return r;        // (the caller skips such inputs: quadratic look-ahead)
            if (q < 0) { r.max_scan = std::max(r.max_scan, i); break; }
            ++i;
            if (d.label[size_t(q)] >= 0) { best = i - p; bl = d.label[size_t(q)]; }
        }
        if (bl < 0 || best == 0) { r.error = true; r.err_off = p; r.err_line = line; r.err_col = col; r.err_byte = (unsigned char)s[p]; break; }
        r.toks.push_back(RefTok{bl, p, best, line, col});
        adv(p + best);
    }
    return r;
}

enum LProp { LC04, LC10, LC12, LC16, LC15 };

static Verdict check_lexer(LProp prop, const LCase& c, Stats& st)
{
    // reference automaton with labels
    std::vector<rx::Ast> asts; std::vector<rx::Dfa> single;
    size_t budget = 0, budget_used_pred = 0; (void)budget_used_pred;
    for (auto& t : c.terms)
    {
        rx::Ast a;
        if (t.type == 2)
        {
            rx::Parsed p = rx::parse_pattern(t.data);
            if (p.cls != rx::VALID) return Verdict::discard("term-pattern-not-valid");
            if (t.data.size() > lx::MAX_PAT) return Verdict::discard("pattern-too-long-for-dispatch");
            a = p.ast;
        }
        else { if (t.data.empty() || t.data.size() > lx::MAX_STR) return Verdict::discard("string-too-long-for-dispatch"); for (unsigned char ch : t.data) if (ch == 0) return Verdict::discard("nul-in-literal"); a = literal_ast(t.data); }
        asts.push_back(a);
        rx::Dfa d; if (!rx::ast_to_dfa(a, d)) return Verdict::discard("spec-too-big"); single.push_back(d);
    }
    rx::Nfa nfa; std::vector<int> starts; std::map<int, int> acc; bool of = false;
    for (size_t i = 0; i < asts.size(); ++i) { auto se = rx::thompson(asts[i], asts[i].root, nfa, 100000, of); starts.push_back(se.first); acc[se.second] = int(i); }
    if (of) return Verdict::discard("spec-too-big");
    rx::Dfa spec; if (!rx::determinize(nfa, starts, acc, spec)) return Verdict::discard("spec-too-big");
    bool any_nullable = spec.label[0] >= 0;
    if (any_nullable && prop != LC04 && prop != LC16 && prop != LC15) return Verdict::discard("nullable-term");

    // the budget the library derives: sum of Terms::dfa_size (char 2, string 2*len, pattern = analyze_dfa_size)
    try { for (auto& t : c.terms) budget += lx::real_term_budget(t); }
    catch (const std::exception& e) { vj::Value d0 = vj::Value::object(); d0.set("exception", e.what()); return Verdict::fail("size analysis threw for a valid term", d0); }
    if (budget > lx::LEXER_DFA) return Verdict::discard("too-big-for-template");

    vj::Value det = vj::Value::object();
    try { lx::build_real_lexer(c.terms); }
    catch (const std::exception& e) { det.set("exception", e.what()); return Verdict::fail("lexer construction threw for valid terms", det); }
    size_t used = ctpg_verif::access::lexer_sm(lx::list_parser()).size();
    if (prop == LC12)
    {
        det.set("budget", (unsigned long long)budget); det.set("used", (unsigned long long)used);
        if (used > budget) return Verdict::fail("lexer automaton needs more states than the sum of the terms' statically computed sizes", det);
        if (c.terms.size() >= 2 && st.counting && st.nontriv(eng::hstr(lcase_json(c).at("terms").dump()))) { st.label("nontrivial"); if (used == budget) st.label("exact-fit"); if (st.want_sample()) { vj::Value s = vj::Value::object(); s.set("terms", lcase_json(c).at("terms")); s.set("budget", (unsigned long long)budget); s.set("used", (unsigned long long)used); st.sample(s); } }
        return Verdict::pass();
    }
    rx::Dfa impl; lx::real_lexer_dfa(impl);
    std::string w; bool inconcl = false;
    bool eq = rx::equivalent(spec, impl, w, 60000, &inconcl);
    if (inconcl) return Verdict::discard("comparison-too-big");
    const rx::Dfa* tokenizer = &spec;
    rx::Dfa model;
    bool affected = false;
    if (!eq)
    {
        // three-way with the model of the pinned construction
        bm::Builder m(lx::LEXER_DFA);
        for (size_t i = 0; i < c.terms.size(); ++i)
        {
            bm::Slice sl = m.build(asts[i], asts[i].root);
            m.mark_end_states(sl, uint16_t(i));
            m.alt(bm::Slice{0, 0}, sl);
        }
        m.to_dfa(model);
        std::string w2;
        bool inc2 = false;
        bool same = !m.overflow && rx::equivalent(model, impl, w2, 60000, &inc2);
        if (inc2) return Verdict::discard("comparison-too-big");
        int sl = rx::dfa_run(spec, w), il = rx::dfa_run(impl, w);
        det.set("witness_hex", vj::hex(w)); det.set("witness", w); det.set("spec_term", sl); det.set("impl_term", il); det.set("same_as_model_of_pinned_construction", same);
        if ((prop == LC16 || prop == LC15) && !same) return Verdict::discard("lexer-automaton-differs-from-reference(C04's subject)");
        if (prop != LC16 && prop != LC15 && !(same && eng::args().is_known("F5")))
            return Verdict::fail(prop == LC04 ? "lexer automaton does not implement longest-match / first-listed priority for some input" : "lexer automaton differs from the reference", det);
        affected = true; tokenizer = &model;
    }
    // API level on sampled inputs
    auto& p = lx::list_parser();
    size_t interesting = 0;
    for (size_t k = 0; k < c.inputs.size(); ++k)
    {
        const LInput& in = c.inputs[k];
        RefLex rl = ref_lex(*tokenizer, in.text, in.ws, in.nl);
        // longest match looks ahead: on a giant input whose terms keep looking to the end (a*b on aaaa...) the work is quadratic - minutes under the sanitizers, and the
        // worker's remaining cases would be lost to the per-case ceiling. Such inputs are skipped and counted.
        if (rl.steps > 3000000) { st.count("skipped:quadratic-lookahead-on-a-giant-input"); continue; }
        if (any_nullable && !eng::args().is_known("F14-never")) { /* nullable terms are handled like any other: an empty match is no match */ }
        lx::Log log; lx::g_log = &log;
        std::unique_ptr<char[]> exact(new char[in.text.size() ? in.text.size() : 1]); std::memcpy(exact.get(), in.text.data(), in.text.size());
        std::string_view sv(exact.get(), in.text.size());
        std::ostringstream os; bool has = false; bool threw = false; std::string exc;
        try
        {
            eng::watchdog_arm(60);
            auto res = p.parse(ctpg::parse_options{}.set_skip_whitespace(in.ws).set_skip_newline(in.nl), ctpg::buffers::string_view_buffer(sv), os);
            has = res.has_value();
        }
        catch (const std::exception& e) { threw = true; exc = e.what(); }
        lx::g_log = nullptr;
        st.sub_evaluations += st.counting ? 1 : 0;
        auto fd = [&]() { vj::Value d = vj::Value::object(); d.set("input_index", (unsigned long long)k); d.set("input", in.text); d.set("input_hex", vj::hex(in.text)); d.set("ws", in.ws); d.set("nl", in.nl); d.set("error_stream", os.str()); return d; };
        if (threw) { auto d = fd(); d.set("exception", exc); return Verdict::fail(log.empty_lexeme ? "an empty lexeme was delivered to a term functor (no term matches a non-empty prefix)" : "parse threw", d); }
        // token sequence seen by the term functors
        size_t expect_n = rl.toks.size();
        bool tok_ok = log.terms.size() == expect_n;
        for (size_t i = 0; tok_ok && i < expect_n; ++i)
        {
            const auto& tc = log.terms[i];
            if (tc.term != rl.toks[i].term || size_t(tc.data - exact.get()) != rl.toks[i].off || tc.size != rl.toks[i].len) tok_ok = false;
        }
        if (prop == LC04)
        {
            if (!tok_ok)
            {
                auto d = fd(); vj::Value ex = vj::Value::array(); for (auto& t : rl.toks) { vj::Value x = vj::Value::array(); x.push(t.term); x.push((unsigned long long)t.off); x.push((unsigned long long)t.len); ex.push(x); } d.set("expected_tokens", ex);
                vj::Value ob = vj::Value::array(); for (auto& t : log.terms) { vj::Value x = vj::Value::array(); x.push(t.term); x.push((long long)(t.data - exact.get())); x.push((unsigned long long)t.size); ob.push(x); } d.set("observed_tokens", ob);
                return Verdict::fail("delivered terms/lexemes differ from longest-match, first-listed tokenisation after whitespace skipping", d);
            }
            if (has == rl.error) { auto d = fd(); d.set("expected_failure", rl.error); return Verdict::fail(rl.error ? "no term matches but the parse did not fail" : "parse failed although every position has a matching term", d); }
            std::string want;
            if (rl.error) { std::ostringstream ws; ws << "[" << rl.err_line << ":" << rl.err_col << "] PARSE: Unexpected character: " << char(rl.err_byte) << "\n"; want = ws.str(); }
            if (os.str() != want) { auto d = fd(); d.set("expected_stream", want); return Verdict::fail("wrong or missing 'Unexpected character' report", d); }
        }
        if (prop == LC15)
        {
            // the same call again (and a third time with verbose output in between): a call gives the result it would give in isolation - in particular
            // the FIRST call of a kind in the process must not differ from later ones (once-only hints, lazily filled caches, static flags)
            auto again = [&](bool verbose, std::string& text_out, bool& has_out, std::vector<lx::TermCall>& calls) -> bool
            {
                lx::Log l2; lx::g_log = &l2; std::ostringstream o2;
                try { auto res = p.parse(ctpg::parse_options{}.set_skip_whitespace(in.ws).set_skip_newline(in.nl).set_verbose(verbose), ctpg::buffers::string_view_buffer(sv), o2); has_out = res.has_value(); }
                catch (const std::exception&) { lx::g_log = nullptr; return false; }
                lx::g_log = nullptr; text_out = o2.str(); calls = l2.terms; return true;
            };
            std::string t2, t3, tv; bool h2 = false, h3 = false, hv = false; std::vector<lx::TermCall> c2, c3, cv;
            // (the per-character lexer trace of a giant lexeme is megabytes of text and takes minutes under the sanitizers: the verbose call in between is quiet for those)
            bool ok2 = again(false, t2, h2, c2), okv = again(in.text.size() <= 4000, tv, hv, cv), ok3 = again(false, t3, h3, c3);
            st.sub_evaluations += st.counting ? 3 : 0;
            auto same_calls = [](const std::vector<lx::TermCall>& a, const std::vector<lx::TermCall>& b) { if (a.size() != b.size()) return false; for (size_t i = 0; i < a.size(); ++i) if (a[i].term != b[i].term || a[i].data != b[i].data || a[i].size != b[i].size) return false; return true; };
            if (!ok2 || !okv || !ok3) { auto d = fd(); return Verdict::fail("a repeated call threw", d); }
            if (h2 != has || h3 != has || hv != has || t2 != os.str() || t3 != os.str() || !same_calls(c2, log.terms) || !same_calls(c3, log.terms))
            { auto d = fd(); d.set("first_call_stream", os.str()); d.set("second_call_stream", t2); d.set("third_call_stream", t3); return Verdict::fail("the same call repeated on the same parser gave a different result (result, error stream text or term functor calls)", d); }
            if (rl.toks.size() >= 1 || rl.error) ++interesting;
        }
        if (prop == LC16 && in.text.size() <= 4000)   // (the per-character lexer trace of a giant lexeme is megabytes of text)
        {
            // the same input with verbose on: same outcome, same term functor calls, quiet lines kept, and the recognised terms / shifts written to
            // the stream are exactly the tokens of the reference tokenisation (the list grammar accepts every term sequence)
            lx::Log vlog; lx::g_log = &vlog; std::ostringstream vos; bool vhas = false;
            try { auto res = p.parse(ctpg::parse_options{}.set_skip_whitespace(in.ws).set_skip_newline(in.nl).set_verbose(true), ctpg::buffers::string_view_buffer(sv), vos); vhas = res.has_value(); }
            catch (const std::exception& e) { lx::g_log = nullptr; auto d = fd(); d.set("exception", e.what()); return Verdict::fail("verbose parse threw", d); }
            lx::g_log = nullptr;
            st.sub_evaluations += st.counting ? 1 : 0;
            auto vfail = [&](const std::string& what) { auto d = fd(); d.set("verbose_stream", vos.str().substr(0, 4000)); return Verdict::fail(what, d); };
            if (vhas != has) return vfail("result depends on verbosity");
            bool same_calls = vlog.terms.size() == log.terms.size(); for (size_t i = 0; same_calls && i < log.terms.size(); ++i) if (vlog.terms[i].term != log.terms[i].term || vlog.terms[i].data != log.terms[i].data || vlog.terms[i].size != log.terms[i].size) same_calls = false;
            if (!same_calls) return vfail("term functor calls depend on verbosity");
            { auto ql = dt::split_lines(os.str()), vl = dt::split_lines(vos.str()); size_t j = 0; for (auto& l : ql) { while (j < vl.size() && vl[j] != l) ++j; if (j == vl.size()) return vfail("a non-verbose message is missing from (or altered in) the verbose output"); ++j; } }
            if (tok_ok)
            {
                auto tr = dt::parse_trace(vos.str());
                std::vector<std::string> rec, shifted; bool eof_rec = false, success = false;
                for (auto& tl : tr) { if (tl.k == dt::TraceLine::RECOGNIZED) { if (tl.s == "<eof>") eof_rec = true; else rec.push_back(tl.s); } else if (tl.k == dt::TraceLine::SHIFT) shifted.push_back(tl.s); else if (tl.k == dt::TraceLine::SUCCESS) success = true; }
                std::vector<std::string> want; for (auto& t : rl.toks) want.push_back(lx::term_ids[t.term]);
                if (rec != want) { auto d = fd(); d.set("verbose_stream", vos.str().substr(0, 4000)); vj::Value a = vj::Value::array(); for (auto& x : want) a.push(x); d.set("terms_of_the_input", a); vj::Value b = vj::Value::array(); for (auto& x : rec) b.push(x); d.set("traced_recognised_terms", b); return Verdict::fail("verbose trace is not truthful: recognised terms differ from the terms the lexer delivered", d); }
                if (shifted.size() != want.size()) return vfail("verbose trace is not truthful: shifts differ from the terms consumed");
                if (eof_rec == rl.error) return vfail(rl.error ? "verbose trace is not truthful: <eof> recognised in a parse that stopped at an unexpected character" : "verbose trace is not truthful: <eof> never recognised in a successful parse");
                if (success != has) return vfail("verbose trace is not truthful: Success line does not match the result");
            }
            if (rl.toks.size() >= 2) { ++interesting; if (rl.error && st.counting) st.label(any_nullable ? "lexical-error-with-nullable-term" : "lexical-error"); }
        }
        if (prop == LC10 && tok_ok)
        {
            for (size_t i = 0; i < log.rules.size() && i < rl.toks.size(); ++i)
                if (int(log.rules[i].line) != rl.toks[i].line || int(log.rules[i].col) != rl.toks[i].col || int(log.rules[i].sp_line) != rl.toks[i].line || int(log.rules[i].sp_col) != rl.toks[i].col)
                {
                    auto d = fd(); d.set("token", (unsigned long long)i); d.set("expected_line", rl.toks[i].line); d.set("expected_col", rl.toks[i].col); d.set("observed_line", (unsigned long long)log.rules[i].line); d.set("observed_col", (unsigned long long)log.rules[i].col);
                    return Verdict::fail("term value carries a wrong source point", d);
                }
            if (rl.error)
            {
                int l = 0, cc = 0; std::string es = os.str();
                if (sscanf(es.c_str(), "[%d:%d]", &l, &cc) == 2 && (l != rl.err_line || cc != rl.err_col)) { auto d = fd(); d.set("expected_line", rl.err_line); d.set("expected_col", rl.err_col); return Verdict::fail("position in the error message is not the true line/column", d); }
            }
        }
        // non-trivial accounting
        size_t multi = 0; bool nlbefore = false, nl_in_lexeme = false;
        for (auto& t : rl.toks)
        {
            size_t cands = 0;
            for (auto& d1 : single) { int q = 0; size_t i = t.off; bool m = false; while (q >= 0 && i < in.text.size()) { q = d1.tr[size_t(q)][(unsigned char)in.text[i]]; if (q < 0) break; ++i; if (d1.label[size_t(q)] >= 0) { m = true; break; } } if (m) ++cands; }
            if (cands >= 2) ++multi;
            if (t.line > 1) nlbefore = true;
            if (in.text.substr(t.off, t.len).find('\n') != std::string::npos) nl_in_lexeme = true;
        }
        if (prop == LC04 && rl.toks.size() >= 2 && multi >= 1) ++interesting;
        if (prop == LC10 && ((rl.toks.size() >= 2 && nlbefore) || nl_in_lexeme)) { ++interesting; if (nl_in_lexeme && st.counting) st.label("multi-line-lexeme"); }
    }
    if (interesting && st.counting && st.nontriv(eng::hcomb(eng::hstr(lcase_json(c).at("terms").dump()), c.inputs.size())))
    {
        st.label("nontrivial"); st.label(affected ? "known:F5(api-level checked against the model automaton)" : "impl==spec");
        for (auto& l : c.labels) st.label(l);
        int types[3] = {0, 0, 0}; for (auto& t : c.terms) types[t.type]++;
        if (types[0]) st.label("has-char-term"); if (types[1]) st.label("has-string-term"); if (types[2]) st.label("has-regex-term");
        bool giant = false; for (auto& in : c.inputs) if (in.text.size() > 400) giant = true;
        if (st.want_sample() && !giant) { vj::Value s = lcase_json(c); st.sample(s); }
    }
    if (affected && prop != LC16 && prop != LC15) { if (st.counting) st.excluded_known["F5"]++; }
    return Verdict::pass();
}

template<LProp PROP>
struct LP
{
    using Case = LCase;
    static const char* id() { return PROP == LC04 ? (eng::args().prop == "C09l" ? "C09l" : eng::args().prop == "C03l" ? "C03l" : "C04") : PROP == LC10 ? "C10l" : PROP == LC16 ? "C16l" : PROP == LC15 ? "C15l" : "C12l"; }
    static Case gen(Choice& ch) { return gen_lcase(ch); }
    static vj::Value to_json(const Case& c) { return lcase_json(c); }
    static Case from_json(const vj::Value& v) { return lcase_from(v); }
    static std::vector<Case> shrinks(const Case& c, const vj::Value& d) { return lcase_shrinks(c, d); }
    static Verdict eval(const Case& c, Stats& st) { return check_lexer(PROP, c, st); }
};

int main(int argc, char** argv)
{
    eng::Args a = eng::parse_args(argc, argv);
    int rc = 2;
    eng::on_big_stack([&]
    {
        if (a.prop == "C04" || a.prop == "C09l" || a.prop == "C03l") rc = eng::run_property<LP<LC04>>(a);   // C03l: a regex TERM of a parser (lexer path add_term_data_to_dfa) matches its pattern's language     // C09l: the same oracle serves C09's 'Unexpected character' clause for real lexers
        else if (a.prop == "C10l") rc = eng::run_property<LP<LC10>>(a);
        else if (a.prop == "C12l") rc = eng::run_property<LP<LC12>>(a);
        else if (a.prop == "C16l") rc = eng::run_property<LP<LC16>>(a);
        else if (a.prop == "C15l") rc = eng::run_property<LP<LC15>>(a);
        else { fprintf(stderr, "unknown --prop %s\n", a.prop.c_str()); rc = 2; }
    });
    return rc;
}

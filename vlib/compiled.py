"""Compiled tier (E9): generated C++ programs that use only the public API, compiled with g++ and clang++, run and compared with the reference.
Serves C07 (constexpr vs run time, buffer kinds, parser built at compile time vs run time) and C17b (undeclared symbols);
the same programs confirm C01/C02/C05/C08/C09 end to end through the DSL front end."""
import hashlib, json, os, shutil, subprocess, sys, time
from concurrent.futures import ThreadPoolExecutor
from . import build as BUILD

ROOT = os.path.dirname(os.path.dirname(os.path.abspath(__file__)))
REPO = os.environ.get("CTPG_REPO", "/repo")

VERBOSE_RUNS = False      # set by run() for C16: the lite programs also parse every input with verbose output
PRELUDE = r'''
#include <ctpg/ctpg.hpp>
#include <cstdint>
#include <cstdio>
#include <sstream>
#include <string>
#include <pthread.h>
using namespace ctpg; using namespace ctpg::buffers;
namespace hh {
constexpr uint64_t mix64(uint64_t x) { x += 0x9e3779b97f4a7c15ULL; x = (x ^ (x >> 30)) * 0xbf58476d1ce4e5b9ULL; x = (x ^ (x >> 27)) * 0x94d049bb133111ebULL; return x ^ (x >> 31); }
constexpr uint64_t hcomb(uint64_t h, uint64_t v) { return mix64(h * 0x100000001b3ULL + v + 0x632be59bd9b4e019ULL); }
constexpr uint64_t hstr(std::string_view s) { uint64_t h = 1469598103934665603ULL; for (char c : s) h = hcomb(h, uint64_t(static_cast<unsigned char>(c))); return h; }
constexpr uint64_t term_hash(int term, std::string_view lex) { return hcomb(hcomb(0x7e57, uint64_t(term)), hstr(lex)); }
constexpr uint64_t val(uint64_t v) { return v; }
constexpr uint64_t val(const term_value<char>& t) { char c = t.get_value(); return term_hash(c - 'a', std::string_view(&c, 1)); }
constexpr uint64_t val(const term_value<std::string_view>& t) { return term_hash(t.get_value()[0] - 'a', t.get_value()); }
constexpr uint64_t val(no_type) { return 0xe44044ULL; }
// run time only: a digest of the source points that rule functors read from their term arguments (odd rules through get_sp(), even ones through get_line()/get_column())
inline uint64_t& pos_digest() { static uint64_t d = 0x51ed; return d; }
template<class X> inline void note_pos_rt(int R, const term_value<X>& t) { uint64_t l = (R % 2) ? t.get_sp().line : t.get_line(); uint64_t c = (R % 2) ? t.get_sp().column : t.get_column(); pos_digest() = hcomb(pos_digest(), hcomb(uint64_t(R), l * 1000003ULL + c)); }
template<class X> inline void note_pos_rt(int, const X&) {}
template<class A> constexpr void note_pos(int R, const A& a) { if (!__builtin_is_constant_evaluated()) note_pos_rt(R, a); }
template<int R> struct F { template<class... A> constexpr uint64_t operator()(A&&... a) const { uint64_t h = hcomb(0xabcd, uint64_t(R)); ((h = hcomb(h, val(a)), note_pos(R, a)), ...); return h; } };
// spelled terminals: the grammar's namespace supplies M::term_of(lexeme)
// run-time-only programs: a term value type that owns memory (not trivially copyable), as typed terms returning std::string / std::vector have
struct Owned { uint64_t h = 0; std::string keep; operator uint64_t() const { return h; } };
struct TO { int t; Owned operator()(std::string_view sv) const { return Owned{term_hash(t, sv), std::string(sv) + " (owned copy, long enough to live on the heap)"}; } };
inline uint64_t val(const term_value<Owned>& t) { return t.get_value().keep.size() > 40 ? t.get_value().h : 0xdeadULL; }
constexpr uint64_t val2(uint64_t v) { return v; }
constexpr uint64_t val2(no_type) { return 0xe44044ULL; }
template<class M> struct V2 {
  static constexpr uint64_t of(uint64_t v) { return v; }
  static constexpr uint64_t of(no_type) { return 0xe44044ULL; }
  static constexpr uint64_t of(const term_value<uint64_t>& t) { return t.get_value(); }
  static uint64_t of(const term_value<Owned>& t) { return t.get_value().keep.size() > 40 ? t.get_value().h : 0xdeadULL; }
  static constexpr uint64_t of(const term_value<char>& t) { char c = t.get_value(); return term_hash(M::term_of(std::string_view(&c, 1)), std::string_view(&c, 1)); }
  static constexpr uint64_t of(const term_value<std::string_view>& t) { return term_hash(M::term_of(t.get_value()), t.get_value()); }
};
template<int R, class M> struct F2 { template<class... A> constexpr uint64_t operator()(A&&... a) const { uint64_t h = hcomb(0xabcd, uint64_t(R)); ((h = hcomb(h, V2<M>::of(a)), note_pos(R, a)), ...); return h; } };
template<int R, class M> struct FC2M { template<class C, class... A> constexpr uint64_t operator()(C&&, A&&... a) const { uint64_t h = hcomb(0xabcd, uint64_t(R)); ((h = hcomb(h, V2<M>::of(a)), note_pos(R, a)), ...); return h; } };
template<int T> struct TF { constexpr uint64_t operator()(std::string_view sv) const { return term_hash(T, sv); } };
// one functor TYPE for several terms, told apart by state only (e.g. typed_term(char_term('+'), as_op{add}) / typed_term(char_term('-'), as_op{sub}))
struct TS { int t; constexpr uint64_t operator()(std::string_view sv) const { return term_hash(t, sv); } };
template<int R> struct G { template<class... A> constexpr uint64_t operator()(A&&...) const { return uint64_t(R); } };
template<int R> struct FC { template<class C, class... A> constexpr uint64_t operator()(C&&, A&&... a) const { uint64_t h = hcomb(0xabcd, uint64_t(R)); ((h = hcomb(h, val(a)), note_pos(R, a)), ...); return h; } };
// is T::run() a constant expression?  1 value / 0 empty / -1 not a constant expression
template<class T, bool = (T::run().has_value(), true)> constexpr int probe(int) { return T::run().has_value() ? 1 : 0; }
template<class T> constexpr int probe(...) { return -1; }
template<class T, bool = (T::run().has_value(), true)> constexpr uint64_t cvalue(int) { return T::run().has_value() ? T::run().value() : 0; }
template<class T> constexpr uint64_t cvalue(...) { return 0; }
template<class T, bool = (T::make(), true)> constexpr int probe_make(int) { return 1; }
template<class T> constexpr int probe_make(...) { return -1; }
inline std::string hex(const std::string& s) { static const char* d = "0123456789abcdef"; std::string o; for (unsigned char c : s) { o += d[c >> 4]; o += d[c & 15]; } return o; }
template<class P, class B> void rt(const char* tag, const P& p, parse_options o, const B& b) {
  std::ostringstream os; pos_digest() = 0x51ed;
  try { auto r = p.parse(o, b, os);
  std::printf(" %s=%d:%llu:%s p%s=%llu", tag, r.has_value() ? 1 : 0, (unsigned long long)(r.has_value() ? r.value() : 0), hex(os.str()).c_str(), tag, (unsigned long long)pos_digest()); }
  catch (const std::exception& e) { std::printf(" %s=EXC:0:%s", tag, hex(e.what()).c_str()); } }
template<class P, class B> void rt_verbose(const char* tag, const P& p, parse_options o, const B& b) {
  std::ostringstream os;
  try { auto r = p.parse(o.set_verbose(true), b, os);
  std::printf(" v%s=%d:%llu:%s", tag, r.has_value() ? 1 : 0, (unsigned long long)(r.has_value() ? r.value() : 0), hex(os.str()).c_str()); }
  catch (const std::exception& e) { std::printf(" v%s=EXC:0:%s", tag, hex(e.what()).c_str()); } }
template<class Fn> void big_stack(Fn fn) { pthread_attr_t at; pthread_attr_init(&at); pthread_attr_setstacksize(&at, size_t(1) << 29); pthread_t th;
  auto tr = [](void* q) -> void* { (*static_cast<Fn*>(q))(); return nullptr; }; pthread_create(&th, &at, tr, &fn); pthread_join(th, nullptr); }
}
'''


def nname(i, nN, flip=False):
    """nonterminal names are prefixes of each other; the longest is declared first (flip: the shortest first), so a symbol lookup that accepts a
    prefix - in either direction - binds the wrong symbol"""
    return "n" * (i + 1) if flip else "n" * (nN - i)


def names_flip(g):
    import zlib
    return zlib.crc32(json.dumps(g["rules"], sort_keys=True).encode()) % 3 == 0


def cstr(b):
    return '"' + "".join("\\%03o" % c for c in b) + '"'


def cxx_str(t):
    out = ""
    for ch in t:
        o = ord(ch)
        if ch in '"\\' or o < 32 or o > 126:
            out += "\\%03o" % o
        else:
            out += ch
    return '"' + out + '"'


def render_grammar(gi, case, with_cases=True, lite=False, ctxmix=False, customlex=False):
    g = case["grammar"]
    ns = "g%d" % gi
    nN = g["nN"]
    out = ["namespace %s {" % ns]
    out.append("constexpr nterm<uint64_t> " + ", ".join('N%d("%s")' % (i, nname(i, nN, names_flip(g))) for i in range(nN)) + ";")
    spelling = case.get("spelling")
    terms = []
    in_rules = {}
    functor = "hh::F<%d>{}"
    if spelling:
        # real term kinds: char / string (implicit or explicit object), regex with or without custom name, typed char term
        import random
        rnd = random.Random(gi * 7919 + len(g["rules"]))
        tof = []
        decl = {}
        import zlib as _z
        stateful = _z.crc32(json.dumps(g["rules"], sort_keys=True).encode()) % 2 == 1      # typed / custom terms share one functor type in half of the programs
        tfun = (lambda t: "hh::TS{%d}" % t) if stateful else (lambda t: "hh::TF<%d>{}" % t)
        if lite and _z.crc32(json.dumps(g["rules"], sort_keys=True).encode()) % 3 == 2:
            tfun = lambda t: "hh::TO{%d}" % t          # typed / custom terms whose value owns memory
        for t, (ti, sp) in enumerate(zip(g["terms"], spelling)):
            assoc = "associativity::" + ["no_assoc", "ltor", "rtol"][ti["assoc"]]
            plain = ti["prec"] == 0 and ti["assoc"] == 0
            k = sp["kind"]
            if customlex:
                # C18: every terminal is a custom_term (display name, functor, precedence, associativity); a hand-written longest-match lexer supplies (index in terms(...), length)
                if plain and rnd.random() < 0.5:
                    out.append("constexpr custom_term T%d(%s, %s);" % (t, cxx_str(sp["name"]), tfun(t)))
                elif ti["assoc"] == 0 and rnd.random() < 0.5:
                    out.append("constexpr custom_term T%d(%s, %s, %d);" % (t, cxx_str(sp["name"]), tfun(t), ti["prec"]))
                else:
                    out.append("constexpr custom_term T%d(%s, %s, %d, %s);" % (t, cxx_str(sp["name"]), tfun(t), ti["prec"], assoc))
                decl[t] = "T%d" % t
                in_rules[t] = ["T%d" % t]
                continue
            if k in ("T", "r"):
                # the same language "<letter>[0-9]+" written with hex escapes in half of the programs (content-derived choice, so that a replay renders the same text)
                import zlib
                hv = zlib.crc32(("%d|%s|%s" % (t, sp["name"], json.dumps(g["rules"], sort_keys=True))).encode())
                pat_text = sp["text"]
                if hv % 2 == 0:
                    pat_text = "\\x%02x" % ord(sp["text"][0]) + ("[0-9]+" if hv % 4 == 0 else "[\\x30-\\x39]+")
            if k == "T":
                # typed term wrapping a regex term that has a custom display name
                out.append("constexpr char pat%d[] = %s;" % (t, cxx_str(pat_text)))
                out.append("constexpr typed_term T%d(regex_term<pat%d>(%s, %d, %s), %s);" % (t, t, cxx_str(sp["name"]), ti["prec"], assoc, tfun(t)))
                decl[t] = "T%d" % t
                in_rules[t] = ["T%d" % t]
            elif k in ("r", "R"):
                out.append("constexpr char pat%d[] = %s;" % (t, cxx_str(pat_text if k == "r" else sp["text"])))
                if k == "r":
                    out.append("constexpr regex_term<pat%d> T%d(%s, %d, %s);" % (t, t, cxx_str(sp["name"]), ti["prec"], assoc))
                else:
                    out.append("constexpr regex_term<pat%d> T%d(%d, %s);" % (t, t, ti["prec"], assoc))
                decl[t] = "T%d" % t
                in_rules[t] = ["T%d" % t]
                tof.append("if (!lex.empty() && lex[0] == '%s') return %d;" % (sp["text"][0], t))
            elif k == "t":
                out.append("constexpr typed_term T%d(char_term('%s', %d, %s), %s);" % (t, sp["text"], ti["prec"], assoc, tfun(t)))
                decl[t] = "T%d" % t
                in_rules[t] = ["T%d" % t]
            else:
                lit = (("'\\%03o'" % ord(sp["text"])) if (k == "c" and not (32 < ord(sp["text"]) < 127)) else ("'%s'" % sp["text"])) if k == "c" else cxx_str(sp["text"])
                if plain and rnd.random() < 0.6:
                    decl[t] = lit
                    in_rules[t] = [lit]
                else:
                    if k == "c":
                        out.append("constexpr char_term T%d(%s, %d, %s);" % (t, lit, ti["prec"], assoc))
                    else:
                        out.append("constexpr string_term T%d(%s, %d, %s);" % (t, lit, ti["prec"], assoc))
                    decl[t] = "T%d" % t
                    in_rules[t] = ["T%d" % t, lit]          # an explicitly defined term may still be named by its literal in rules
                tof.append("if (lex == std::string_view(%s, %d)) return %d;" % (cxx_str(sp["text"]), len(sp["text"]), t))
        out.append("struct M { static constexpr int term_of(std::string_view lex) { %s return -1; } };" % " ".join(tof))
        terms = [decl[t] for t in case["decl_order"]]
        functor = "hh::F2<%d, M>{}"
        if customlex:
            tries = []
            for pos, t in enumerate(case["decl_order"]):
                sp = spelling[t]
                if sp["kind"] in ("r", "R", "T"):
                    tries.append("rx(%d, '%s');" % (pos, sp["text"][0]))
                else:
                    tries.append("lit(%d, std::string_view(%s, %d));" % (pos, cxx_str(sp["text"]), len(sp["text"])))
            out.append("""struct Lx {
  template<class It, class ES> constexpr recognized_term match(match_options, source_point, It start, It end, ES&) {
    size_t best_len = 0; int best = -1;
    auto take = [&](int idx, size_t k) { if (k > best_len || (k == best_len && k > 0 && idx < best)) { best_len = k; best = idx; } };
    auto lit = [&](int idx, std::string_view s) { It it = start; size_t k = 0; while (k < s.size() && !(it == end) && *it == s[k]) { ++it; ++k; } if (k == s.size()) take(idx, k); };
    auto rx = [&](int idx, char first) { It it = start; if (it == end || *it != first) return; ++it; size_t k = 1; while (!(it == end) && *it >= '0' && *it <= '9') { ++it; ++k; } if (k >= 2) take(idx, k); };
    %s
    if (best < 0) return recognized_term{};
    return recognized_term(size16_t(best), best_len);
  }
};""" % " ".join(tries))
    else:
        for t, ti in enumerate(g["terms"]):
            ch = chr(ord('a') + t)
            assoc = ["no_assoc", "ltor", "rtol"][ti["assoc"]]
            if ti["prec"] != 0 or ti["assoc"] != 0:
                out.append("constexpr char_term t%d('%s', %d, associativity::%s);" % (t, ch, ti["prec"], assoc))
                terms.append("t%d" % t)
            else:
                terms.append("'%s'" % ch)
    rules = []
    for ri, r in enumerate(g["rules"]):
        syms = []
        for si, s in enumerate(r["rhs"]):
            if "n" in s:
                syms.append("N%d" % s["n"])
            elif s["t"] == g["nT"] + 1:
                syms.append("error")
            elif spelling:
                alts = in_rules[s["t"]]
                syms.append(alts[(ri + si) % len(alts)])
            else:
                syms.append("'%s'" % chr(ord('a') + s["t"]))
        txt = "N%d(%s)" % (r["lhs"], ", ".join(syms))
        if "prec" in r:
            txt += "[%d]" % r["prec"]
        if not r.get("default_functor"):
            if ctxmix and r["slot"] % 2 == 1:
                # a context-taking functor ('>>='), attached after the explicit precedence: rule[n] >>= f
                txt += " >>= " + (("hh::FC2M<%d, M>{}" % r["slot"]) if spelling else ("hh::FC<%d>{}" % r["slot"]))
            else:
                txt += " >= " + functor % r["slot"]
        rules.append(txt)
    # the parser stores pointers into itself (term names), so it is always constructed in place, never returned by value
    out.append("#define G%d_ARGS N%d, terms(%s), nterms(%s), rules(\\\n    %s)%s" % (
        gi, g["root"], ", ".join(terms), ", ".join("N%d" % i for i in range(nN)), ", \\\n    ".join(rules), ", use_lexer<Lx>{}" if customlex else ""))
    out.append("constexpr parser p(G%d_ARGS);" % gi)
    if with_cases and lite:
        # run-time only (C01/C02/C09 end-to-end through the DSL): the compile-time constructed parser, two run-time buffers
        out.append("void run_all() {")
        for k, inp in enumerate(case["inputs"]):
            lit = cstr(bytes.fromhex(inp["hex"]))
            n = len(bytes.fromhex(inp["hex"]))
            opts = "parse_options{}.set_skip_whitespace(%s).set_skip_newline(%s)" % ("true" if inp["ws"] else "false", "true" if inp["nl"] else "false")
            out.append('  { std::printf("CASE %s %d ce=9:0"); parse_options o = %s; static const char lit[] = %s; hh::rt("sb", p, o, string_buffer(std::string(lit, %d))); hh::rt("sv", p, o, string_view_buffer(std::string_view(lit, %d))); { static const std::string big = std::string(lit, %d) + " \\n\\t  ;;zz"; hh::rt("svs", p, o, string_view_buffer(std::string_view(big.data(), %d))); }%s std::printf("\\n"); }' % (ns, k, opts, lit, n, n, n, n, (' hh::rt_verbose("sv", p, o, string_view_buffer(std::string_view(lit, %d))); hh::rt_verbose("sb", p, o, string_buffer(std::string(lit, %d)));' % (n, n)) if VERBOSE_RUNS else ""))
        out.append('  { std::ostringstream dg; p.write_diag_str(dg); std::printf("DIAG %s %%s\\n", hh::hex(dg.str()).c_str()); }' % ns)
        out.append("}")
    elif with_cases:
        for k, inp in enumerate(case["inputs"]):
            lit = cstr(bytes.fromhex(inp["hex"]))
            opts = "parse_options{}.set_skip_whitespace(%s).set_skip_newline(%s)" % ("true" if inp["ws"] else "false", "true" if inp["nl"] else "false")
            out.append("struct c%d { static constexpr auto run() { utils::no_stream ns; return p.parse(%s, cstring_buffer(%s), ns); } };" % (k, opts, lit))
            if k < 2:      # the same parse with the trace switched on: at compile time the only possible stream is no_stream, the result must not change (C16/C07)
                out.append("struct cv%d { static constexpr auto run() { utils::no_stream ns; return p.parse(%s.set_verbose(), cstring_buffer(%s), ns); } };" % (k, opts, lit))
        out.append("void run_all() {")
        out.append("  auto p2 = new parser(G%d_ARGS);   // the same parser constructed at run time" % gi)
        for k, inp in enumerate(case["inputs"]):
            lit = cstr(bytes.fromhex(inp["hex"]))
            n = len(bytes.fromhex(inp["hex"]))
            opts = "parse_options{}.set_skip_whitespace(%s).set_skip_newline(%s)" % ("true" if inp["ws"] else "false", "true" if inp["nl"] else "false")
            out.append('  { std::printf("CASE %s %d ce=%%d:%%llu", hh::probe<c%d>(0), (unsigned long long)hh::cvalue<c%d>(0)); parse_options o = %s; static const char lit[] = %s;' % (ns, k, k, k, opts, lit))
            if k < 2:
                out.append('    std::printf(" cev=%%d:%%llu", hh::probe<cv%d>(0), (unsigned long long)hh::cvalue<cv%d>(0));' % (k, k))
            out.append('    hh::rt("cs", p, o, cstring_buffer(lit)); hh::rt("sb", p, o, string_buffer(std::string(lit, %d))); hh::rt("sv", p, o, string_view_buffer(std::string_view(lit, %d)));' % (n, n))
            out.append('    { static const std::string big = std::string(lit, %d) + " \\n\\t  ;;zz"; hh::rt("svs", p, o, string_view_buffer(std::string_view(big.data(), %d))); }' % (n, n))
            out.append('    { auto* b0 = new string_buffer(std::string(lit, %d)); auto* b1 = new string_buffer(std::move(*b0)); string_buffer b2(*b1); *b0 = string_buffer("#gone#"); *b1 = string_buffer("#gone as well, and long enough for the heap#"); delete b0; delete b1; hh::rt("sbc", p, o, b2); }' % n)
            out.append('    hh::rt("r_cs", *p2, o, cstring_buffer(lit)); hh::rt("r_sb", *p2, o, string_buffer(std::string(lit, %d))); hh::rt("r_sv", *p2, o, string_view_buffer(std::string_view(lit, %d))); std::printf("\\n"); }' % (n, n))
        out.append("  delete p2;")
        out.append("}")
    out.append("}")
    return "\n".join(out)


def render_program(cases, idxs, lite=False, ctxmix=False, customlex=False):
    parts = [PRELUDE]
    for gi in idxs:
        parts.append(render_grammar(gi, cases[gi], True, lite, ctxmix, customlex))
    parts.append("int main() { hh::big_stack([] {")
    for gi in idxs:
        parts.append("  g%d::run_all();" % gi)
    parts.append("}); return 0; }")
    return "\n".join(parts)




def expected_rule_lines(case):
    """RULES section of write_diag_str as the README describes it: '<nr>    <lhs> <- <rhs names>' numbered in source order of rules(...)"""
    g = case["grammar"]; nN = g["nN"]; sp = case.get("spelling"); flip = names_flip(g)
    def tn(t):
        if t == g["nT"] + 1:
            return "<error_recovery_token>"
        return sp[t]["name"] if sp else chr(ord('a') + t)
    out = []
    for i, r in enumerate(g["rules"]):
        rhs = " ".join((nname(s["n"], nN, flip) if "n" in s else tn(s["t"])) for s in r["rhs"])
        out.append((i, nname(r["lhs"], nN, flip), rhs))
    return out


def check_diag_text(text, case):
    """C11 through the DSL: the RULES list must be the declared rules (names resolved to the declared symbols, numbered in source order),
    and a grammar without LR(1) conflicts must not show a CONFLICT line (one with shift/reduce conflicts must)"""
    lines = text.split("\n")
    try:
        a = lines.index("RULES"); b = lines.index("STATES")
    except ValueError:
        return "diagnostic text has no RULES / STATES section"
    listed = {}
    import re
    block = "\n".join(lines[a + 1:b])
    # one entry per rule number at the start of a line; a term's display name may itself contain a line break (string term ";\\n")
    for ent in re.split(r"\n(?=\d+\s)", "\n" + block.strip("\n")):
        if not ent.strip():
            continue
        head, _, rest = ent.partition("<-")
        hw = head.split()
        if len(hw) != 2 or not hw[0].isdigit():
            return "unreadable RULES entry: %r" % ent
        listed[int(hw[0])] = (hw[1], rest.strip())
    for i, lhs, rhs in expected_rule_lines(case):
        got = listed.get(i)
        if got is None:
            return "RULES list lacks rule %d" % i
        if got[0] != lhs or " ".join(got[1].split()) != " ".join(rhs.split()):
            return "RULES list does not describe the declared grammar: rule %d is listed as %r <- %r, declared %r <- %r" % (i, got[0], got[1], lhs, rhs)
    nconf = sum(1 for ln in lines if "CONFLICT" in ln)
    if not case.get("has_sr", False) and case["class"] != "precedence" and nconf:
        return "diagnostic text shows %d CONFLICT line(s) for a grammar without LR(1) conflicts" % nconf
    if case.get("has_sr", False) and nconf == 0:
        return "diagnostic text shows no CONFLICT line for a grammar with shift/reduce conflicts"
    return None


def check_verbose(d, tag, a, v, m, inp, cxx):
    """C16 through the DSL: the verbose parse of the same text through the same buffer kind: same outcome, the quiet messages kept in order, and the
    'Recognized <name>' lines are the display names of the terms the reference tokenisation delivers (parses without recovery), one 'Shift' per consumed term"""
    vv = d.get("v" + tag)
    if vv is None:
        return "no verbose result for %s (%s)" % (tag, cxx)
    va, vval, vhex = vv.split(":")
    if va == "EXC":
        return "the verbose parse threw (%s, %s)" % (tag, cxx)
    if va != a or vval != v:
        return "result depends on verbosity (%s, %s)" % (tag, cxx)
    vtext = bytes.fromhex(vhex).decode("latin-1")
    quiet = bytes.fromhex(m).decode("latin-1")
    pos = 0
    for ln in [x for x in quiet.split("\n") if x]:
        k = vtext.find(ln + "\n", pos)
        if k < 0:
            return "a non-verbose message is missing from (or altered in) the verbose output (%s, %s)" % (tag, cxx)
        pos = k + len(ln) + 1
    if "recognized_hex" in inp:
        import re
        want = [x for x in bytes.fromhex(inp["recognized_hex"]).decode("latin-1").split("\x1f") if x != ""]
        # a display name may contain a line break (string term ";\\n"): take everything between 'PARSE: Recognized ' and the next '[l:c] ' prefix
        got = [g for g in re.findall(r"\] PARSE: Recognized (.*?) ?\n(?=\[\d+:\d+\] |$)", vtext, flags=re.S)]
        # at the end of the input the parser asks for the current term again after every reduction: '<eof>' may be reported several times in a row
        got = [x for i, x in enumerate(got) if not (x == "<eof>" and i > 0 and got[i - 1] == "<eof>")]
        if got != want:
            return "verbose trace is not truthful: recognised terms %r, the input's terms are %r (%s, %s)" % (got[:12], want[:12], tag, cxx)
        nshift = len(re.findall(r"\] PARSE: Shift to \d+, term: ", vtext))
        if nshift != inp.get("shifted", nshift):
            return "verbose trace is not truthful: %d shift lines, %d terms were consumed (%s, %s)" % (nshift, inp["shifted"], tag, cxx)
    return None

# ---- C07 (second program kind): results that KEEP views into the caller's buffer ----------------------------------------
def gen_c07v_texts(seed, n):
    import random
    rnd = random.Random(seed * 31 + 7)
    out = []
    for _ in range(n):
        k = rnd.choice([1, 1, 2, 3, 5, 8])
        words = ["".join(rnd.choice("abcxyz019") for _ in range(rnd.choice([1, 2, 3, 7]))) for _ in range(k)]
        text = ""
        for i, w in enumerate(words):
            if i:
                text += rnd.choice([",", ", ", " ,", ",\n"])
            text += w
        text = rnd.choice(["", " ", "\n"]) + text + rnd.choice(["", " ", "  "])
        bad = rnd.random() < 0.2
        if bad:
            text += rnd.choice([",", ",,a", " a b", "!"])
        out.append({"text": text, "words": words, "ok": not bad})
    return out


def render_c07v(texts):
    parts = [PRELUDE, r"""
namespace vv {
struct Words { std::string_view first, last; size_t n = 0; };      // the result keeps views of the first and the last lexeme
constexpr char wpat[] = "[a-z0-9]+";
constexpr regex_term<wpat> word("word");
constexpr nterm<Words> list("list");
struct One { constexpr Words operator()(std::string_view w) const { return Words{w, w, 1}; } };
struct More { constexpr Words operator()(Words l, char, std::string_view w) const { l.last = w; ++l.n; return l; } };
constexpr parser p(list, terms(word, ','), nterms(list), rules(list(word) >= One{}, list(list, ',', word) >= More{}));
// is the whole compile-time evaluation (parse + reading the views the result keeps) a constant expression?  its value / -1
template<class T, int V = T::eval()> constexpr int probe_v(int) { return V; }
template<class T> constexpr int probe_v(...) { return -1; }
template<class R> constexpr bool good(const R& r, std::string_view whole, std::string_view first, std::string_view last, size_t n)
{
    if (!r.has_value()) return false;
    const Words& w = r.value();
    bool inside = w.first.data() >= whole.data() && w.first.data() + w.first.size() <= whole.data() + whole.size() && w.last.data() >= whole.data() && w.last.data() + w.last.size() <= whole.data() + whole.size();
    return inside && w.first == first && w.last == last && w.n == n;
}
// 2 = value with views of the right content inside the caller's buffer, 1 = value but wrong/dangling views, 0 = empty, 3 = threw
template<class B> int rt(const B& b, std::string_view first, std::string_view last, size_t n)
{
    try { utils::no_stream ns; auto r = p.parse(parse_options{}, b, ns); if (!r.has_value()) return 0; return good(r, b.get_view(b.begin(), b.end()), first, last, n) ? 2 : 1; }
    catch (const std::exception&) { return 3; }
}
template<class B> int rt_short(const B& b, std::string_view first, std::string_view last, size_t n)      // parse(buffer): the shortest overload
{
    try { auto r = p.parse(b); if (!r.has_value()) return 0; return good(r, b.get_view(b.begin(), b.end()), first, last, n) ? 2 : 1; }
    catch (const std::exception&) { return 3; }
}
}
"""]
    body = ["int main() { hh::big_stack([] {"]
    for k, t in enumerate(texts):
        b = t["text"].encode()
        first = t["words"][0]; last = t["words"][-1]; n = len(t["words"])
        parts.append("namespace vv { struct c%d { static constexpr cstring_buffer buf{%s}; static constexpr int eval() { utils::no_stream ns; auto r = p.parse(parse_options{}, buf, ns); "
                     "return !r.has_value() ? 0 : good(r, buf.get_view(buf.begin(), buf.end()), %s, %s, %d) ? 2 : 1; } }; }"
                     % (k, cstr(b), cxx_str(first), cxx_str(last), n))
        body.append('  { static const char lit[] = %s; cstring_buffer cb(lit); string_buffer sb(std::string(lit, %d)); std::string own(lit, %d); string_view_buffer sv{std::string_view(own)};'
                    ' std::printf("VIEW %d ce=%%d cs=%%d sb=%%d sv=%%d cs0=%%d sb0=%%d\\n", vv::probe_v<vv::c%d>(0), vv::rt(cb, %s, %s, %d), vv::rt(sb, %s, %s, %d), vv::rt(sv, %s, %s, %d), vv::rt_short(cb, %s, %s, %d), vv::rt_short(sb, %s, %s, %d)); }'
                    % (cstr(b), len(b), len(b), k, k, cxx_str(first), cxx_str(last), n, cxx_str(first), cxx_str(last), n, cxx_str(first), cxx_str(last), n, cxx_str(first), cxx_str(last), n, cxx_str(first), cxx_str(last), n))
    body.append("}); return 0; }")
    return "\n".join(parts + body)


# ---- a BIG grammar (hundreds of LR(1) states, ~50 terms of three kinds, error rule): C08 / C12 ----------------------------------
# stmt_i <- kw_i expr end_i ';'   for K contexts: the expression states are duplicated per context (different lookahead), so canonical LR(1)
# needs about 14*K states - state numbers far beyond 255. Values are checked against an independent evaluation of the text in python.
def big_grammar_source(K, texts):
    kws = ["kw%02d" % i for i in range(K)]
    ends = ["e%02d" % i if i % 3 else chr(ord('A') + i // 3) for i in range(K)]      # string terms and (every third) char terms
    parts = [PRELUDE, "#include <vector>\nnamespace big {\nconstexpr char numpat[] = \"[0-9]+\"; constexpr regex_term<numpat> num(\"num\");\n"
             "constexpr char hashpat[] = \"#[0-9a-f]{40}\"; constexpr regex_term<hashpat> hash(\"hash\");   // a counted repetition: many automaton states for a short pattern text\n"
             "constexpr nterm<std::vector<long>> prog(\"prog\"); constexpr nterm<long> stmt(\"stmt\"), expr(\"expr\"), term(\"term\");\n"
             "struct lim { static const size_t state_count_cap = %d; static const size_t max_sit_count_per_state_cap = %d; };" % (K * 20 + 150, (2 * K + 2) * (K + 3) + 200)]
    for i in range(K):
        if i % 3:
            parts.append('constexpr string_term E%d("%s");' % (i, ends[i]))
        else:
            parts.append("constexpr char_term E%d('%s');" % (i, ends[i]))
    rules = ["prog() >= ftors::create<std::vector<long>>{}",
             "prog(prog, stmt) >= [](std::vector<long>&& l, long v) { l.push_back(v); return std::move(l); }",
             "stmt(error, ';') >= ftors::val(-1L)",
             "expr(term)",
             "expr(expr, '+', term) >= [](long a, skip, long b) { return (a + b) % 1000; }",
             "expr(expr, '<', term) >= [](long a, skip, long b) { return long(a < b); }",        # a term whose id is a prefix of the error symbol's and the eof symbol's ids
             "term(num) >= [](std::string_view sv) { long v = 0; for (char c : sv) v = (v * 10 + (c - '0')) % 1000; return v; }",
             "term(hash) >= [](std::string_view sv) { return long(sv[1] >= 'a' ? sv[1] - 'a' + 10 : sv[1] - '0') + 500L; }",
             "term('(', expr, ')') >= ftors::_e2",
             "term('(', error, ')') >= ftors::val(995L)"]        # an error rule deep inside: its error-shift targets are discovered late (high state numbers)
    for i in range(K):
        rules.append('stmt("%s", expr, E%d, \';\') >= [](skip, long v, skip, skip) { return %dL + v; }' % (kws[i], i, i * 1000))
        rules.append('stmt("%s", error, E%d, \';\') >= ftors::val(%dL)' % (kws[i], i, -(i + 2)))      # an error rule in every context: error-shift targets spread over the state numbers
    terms = ["num", "hash", "'+'", "'<'", "'('", "')'", "';'"] + ['"%s"' % k for k in kws] + ["E%d" % i for i in range(K)]
    parts.append("inline const auto& the_parser() { static const auto* p = new parser(prog, terms(%s), nterms(prog, stmt, expr, term), rules(\n  %s), use_generated_lexer{}, lim{}); return *p; }"
                 % (", ".join(terms), ",\n  ".join(rules)))
    parts.append("}")
    body = ['int main() { hh::big_stack([] { try { const auto& p = big::the_parser(); std::ostringstream dg; p.write_diag_str(dg); std::string d = dg.str(); size_t pos = d.find("Number of states: "); std::printf("BIGINFO states=%s\\n", pos == std::string::npos ? "?" : d.substr(pos + 18, d.find("(", pos) - pos - 18).c_str());']
    body.append('  auto one = [&](int k, auto&& buf, const char* tag) { try { std::ostringstream os; auto r = p.parse(parse_options{}, buf, os); unsigned long long h = 0x51ed; size_t n = 0; if (r.has_value()) { n = r.value().size(); for (long v : r.value()) h = hh::hcomb(h, (unsigned long long)(v + 7)); }'
                ' size_t ne = 0; { std::string e = os.str(); for (size_t q = e.find("Syntax error"); q != std::string::npos; q = e.find("Syntax error", q + 1)) ++ne; } std::printf("%s %d acc=%d n=%zu h=%llu errs=%zu\\n", tag, k, r.has_value() ? 1 : 0, n, h, ne); } catch (const std::exception& e) { std::printf("%sX %d %s\\n", tag, k, e.what()); } };')
    for k, t in enumerate(texts):
        b = t["text"].encode()
        body.append('  { static const char lit[] = %s; one(%d, string_view_buffer(std::string_view(lit, %d)), "BIG"); one(%d, string_buffer(std::string(lit, %d)), "BIGS"); one(%d, cstring_buffer(lit), "BIGC"); }' % (cstr(b), k, len(b), k, len(b), k))
    body.append('  } catch (const std::exception& e) { std::printf("BIGEXC %s\\n", e.what()); } }); return 0; }')
    # the constructor's frame holds the whole state analyzer: with these limits it needs more than the prelude's 512 MB of (virtual) stack
    return "\n".join(parts + body).replace("size_t(1) << 29", "size_t(1) << 32"), kws, ends


_BIG_TABLES = {}


def big_tables(kws, ends):
    """canonical LR(1) tables of the big grammar, built here from the textbook construction (independent of the library); no conflicts may arise"""
    key = (tuple(kws), tuple(ends))
    if key in _BIG_TABLES:
        return _BIG_TABLES[key]
    K = len(kws)
    # rule = (lhs, rhs tuple, semantic tag)
    R = [("S'", ("prog",), None), ("prog", (), ("list0",)), ("prog", ("prog", "stmt"), ("append",)), ("stmt", ("error", ";"), ("val", -1)),
         ("expr", ("term",), ("e", 0)), ("expr", ("expr", "+", "term"), ("add",)), ("expr", ("expr", "<", "term"), ("lt",)), ("term", ("num",), ("num",)), ("term", ("hash",), ("hash",)),
         ("term", ("(", "expr", ")"), ("e", 1)), ("term", ("(", "error", ")"), ("val", 995))]
    for i in range(K):
        R.append(("stmt", (kws[i], "expr", "E%d" % i, ";"), ("ctx", i)))
        R.append(("stmt", (kws[i], "error", "E%d" % i, ";"), ("val", -(i + 2))))
    NT = {"S'", "prog", "stmt", "expr", "term"}
    by_lhs = {}
    for ri, r in enumerate(R):
        by_lhs.setdefault(r[0], []).append(ri)
    nullable = {"prog"}
    first = {n: set() for n in NT}
    changed = True
    while changed:
        changed = False
        for lhs, rhs, _ in R:
            for x in rhs:
                add = first[x] if x in NT else {x}
                if not add <= first[lhs]:
                    first[lhs] |= add; changed = True
                if x not in nullable:
                    break
    def first_of(seq, la):
        out = set()
        for x in seq:
            if x in NT:
                out |= first[x]
                if x not in nullable:
                    return out
            else:
                out.add(x); return out
        out.add(la); return out
    def closure(items):
        items = set(items); work = list(items)
        while work:
            ri, dot, la = work.pop()
            rhs = R[ri][1]
            if dot < len(rhs) and rhs[dot] in NT:
                for l2 in first_of(rhs[dot + 1:], la):
                    for rj in by_lhs[rhs[dot]]:
                        it = (rj, 0, l2)
                        if it not in items:
                            items.add(it); work.append(it)
        return frozenset(items)
    start = closure({(0, 0, "$")})
    states = [start]; index = {start: 0}; trans = []
    k = 0
    while k < len(states):
        st = states[k]; moves = {}
        for ri, dot, la in st:
            rhs = R[ri][1]
            if dot < len(rhs):
                moves.setdefault(rhs[dot], set()).add((ri, dot + 1, la))
        tr = {}
        for x in sorted(moves):
            c = closure(moves[x])
            if c not in index:
                index[c] = len(states); states.append(c)
            tr[x] = index[c]
        trans.append(tr); k += 1
    action = []
    for si, st in enumerate(states):
        a = {}
        for x, t in trans[si].items():
            if x not in NT:
                a[x] = ("s", t)
        for ri, dot, la in st:
            if dot == len(R[ri][1]):
                act = ("acc",) if ri == 0 else ("r", ri)
                if la in a and a[la] != act:
                    raise RuntimeError("big grammar: conflict in the reference tables")
                a[la] = act
        action.append(a)
    _BIG_TABLES[key] = (R, NT, trans, action)
    return _BIG_TABLES[key]


def big_eval(text, kws, ends):
    """independent evaluation: textbook canonical LR(1) tables (built in python) driven by the README's recovery algorithm: on an error report it, then with the
    error symbol as the lookahead reduce/pop until it can be shifted, shift it, discard terms until one has an action, continue"""
    import re
    toks = []
    pos = 0
    tok_re = re.compile(r"\s*(kw\d\d|e\d\d|[A-Z]|[0-9]+|#[0-9a-f]{40}|[+<();])")
    while pos < len(text):
        m = tok_re.match(text, pos)
        if not m:
            if text[pos:].strip() == "":
                break
            return None          # lexical error: not generated
        toks.append(m.group(1)); pos = m.end()
    M = (1 << 64) - 1
    def mix64(x):
        x = (x + 0x9e3779b97f4a7c15) & M; x = ((x ^ (x >> 30)) * 0xbf58476d1ce4e5b9) & M; x = ((x ^ (x >> 27)) * 0x94d049bb133111eb) & M; return x ^ (x >> 31)
    def hcomb(h, v): return mix64((h * 0x100000001b3 + v + 0x632be59bd9b4e019) & M)
    R, NT, trans, action = big_tables(kws, ends)
    def sym(t):
        if t == "$": return "$"
        if t.isdigit(): return "num"
        if t[0] == "#": return "hash"
        if t in ends: return "E%d" % ends.index(t)
        return t
    toks.append("$")
    st = [0]; vs = []; p = 0; errs = 0; recovering = False; consuming = False
    depth = [1]
    FAIL = lambda: {"acc": 0, "n": 0, "h": 0x51ed, "errs": errs, "depth": depth[0]}
    steps = 0
    while True:
        steps += 1
        if steps > 200000: raise RuntimeError("big_eval: runaway")
        if len(st) > depth[0]: depth[0] = len(st)
        la = "error" if recovering else sym(toks[p])
        act = action[st[-1]].get(la)
        if act is None:
            if consuming:
                if toks[p] == "$": return FAIL()
                p += 1; continue
            if not recovering:
                errs += 1; recovering = True; continue
            st.pop()
            if vs: vs.pop()
            if not st: return FAIL()
            continue
        consuming = False
        if act[0] == "s":
            if la == "error":
                st.append(act[1]); vs.append(None); recovering = False; consuming = True
            else:
                st.append(act[1]); vs.append(toks[p]); p += 1
        elif act[0] == "r":
            lhs, rhs, tag = R[act[1]]
            n = len(rhs)
            args = vs[len(vs) - n:] if n else []
            if n:
                del vs[len(vs) - n:]; del st[len(st) - n:]
            if tag[0] == "list0": v = []
            elif tag[0] == "append": v = args[0] + [args[1]]
            elif tag[0] == "val": v = tag[1]
            elif tag[0] == "e": v = args[tag[1]]
            elif tag[0] == "add": v = (args[0] + args[2]) % 1000
            elif tag[0] == "lt": v = 1 if args[0] < args[2] else 0
            elif tag[0] == "hash": v = int(args[0][1], 16) + 500
            elif tag[0] == "num":
                v = 0
                for c in args[0]: v = (v * 10 + int(c)) % 1000
            elif tag[0] == "ctx": v = tag[1] * 1000 + args[1]
            st.append(trans[st[-1]][lhs]); vs.append(v)
        else:
            out = vs[0]
            h = 0x51ed
            for v in out: h = hcomb(h, (v + 7) & M)
            return {"acc": 1, "n": len(out), "h": h, "errs": errs, "depth": depth[0]}


def big_texts(seed, n, K, kws, ends):
    import random
    rnd = random.Random(seed * 77 + 5)
    def expr(d):
        k = rnd.randint(1, 3); ps = []
        for _ in range(k):
            if d < 4 and rnd.random() < 0.35:
                ps += ["("] + expr(d + 1) + [")"]
            else:
                ps.append(str(rnd.randint(0, 9999)) if rnd.random() < 0.9 else "#" + "".join(rnd.choice("0123456789abcdef") for _ in range(40)))
            ps.append("+" if rnd.random() < 0.8 else "<")
        return ps[:-1]
    out = []
    for _ in range(n):
        stmts = []
        for _ in range(rnd.randint(1, 8)):
            i = rnd.randrange(K); ex = expr(0); tk = [kws[i]] + ex + [ends[i], ";"]
            r = rnd.random()
            if r < 0.06: tk[-2] = ends[(i + 1 + rnd.randrange(K - 1)) % K]     # terminator of another context
            elif r < 0.10: del tk[rnd.randrange(len(tk))]                        # a piece missing (anywhere, also inside brackets)
            elif r < 0.30:                                                       # junk somewhere inside the expression: the deeper the bracket, the later its error state was numbered
                junk = rnd.choice(["+", "+ +", "7 7", kws[rnd.randrange(K)], ends[rnd.randrange(K)], "( )", "(", "7 ("])
                tk.insert(1 + rnd.randrange(len(ex) + 1), junk)
            elif r < 0.33: tk.insert(rnd.randrange(len(tk) + 1), rnd.choice([")", ";", "7"]))
            stmts.append(" ".join(tk) if rnd.random() < 0.7 else "".join(t if t[0] in "+();" else " " + t + " " for t in tk))
        text = rnd.choice(["", " ", "\n"]).join(stmts)
        if rnd.random() < 0.05: text = text.rstrip("; ")                         # input ends while a statement is open
        out.append({"text": text})
    return out


def run_big(pid, tier, seed, work, viol_dir):
    K = 30
    kws = ["kw%02d" % i for i in range(K)]; ends = ["e%02d" % i if i % 3 else chr(ord('A') + i // 3) for i in range(K)]
    texts = [t for t in big_texts(seed, {"quick": 60, "thorough": 600}[tier], K, kws, ends) if big_eval(t["text"], kws, ends) is not None]
    src_text, kws, ends = big_grammar_source(K, texts)
    src = os.path.join(work, "big.cpp")
    open(src, "w").write(src_text)
    violations = []; evaluations = 0; nontrivial = set(); notes = []; labels = {}
    res = compile_and_run(src, "clang++" if (seed % 2) else "g++")
    cxx = "clang++" if (seed % 2) else "g++"
    if not res["compiled"]:
        if res.get("timeout"):
            notes.append("compile of big.cpp hit the time ceiling (inconclusive)")
        else:
            vp = os.path.join(viol_dir, "%s_compile_big.json" % pid)
            json.dump({"check": pid, "kind": "programbig", "compiler": cxx, "source": src_text, "what": "generated program does not compile", "log": res["log"], "texts": texts, "K": K}, open(vp, "w"))
            errs = [l for l in res["log"].splitlines() if "error" in l][:1]
            violations.append(("a grammar of %d rules / %d terms with custom limits does not compile with %s: %s" % (2 * K + 10, 2 * K + 7, cxx, errs[0][:200] if errs else ""), vp))
        return violations, evaluations, nontrivial, notes, labels
    out = res["out"]
    info = [l for l in out.splitlines() if l.startswith("BIGINFO")]
    exc = [l for l in out.splitlines() if l.startswith("BIGEXC")]
    if exc or not info:
        vp = os.path.join(viol_dir, "%s_big_construct.json" % pid)
        json.dump({"check": pid, "kind": "programbig", "compiler": cxx, "source": src_text, "what": "construction failed", "texts": texts, "K": K}, open(vp, "w"))
        violations.append(("a conflict-free grammar of %d rules / %d terms could not be constructed with limits that suffice (%s): %s" % (2 * K + 10, 2 * K + 7, cxx, exc[0][7:200] if exc else "no output, rc=%s" % res.get("rc")), vp))
        return violations, evaluations, nontrivial, notes, labels
    try:
        labels["big-grammar:lr1-states"] = int(info[0].split("=")[1])
    except Exception:
        pass
    got = {}; gotS = {}; gotC = {}; threwS = {}; threwC = {}
    for ln in out.splitlines():
        for tag, dst in (("BIG ", got), ("BIGS ", gotS), ("BIGC ", gotC)):
            if ln.startswith(tag):
                w = ln.split(); dst[int(w[1])] = {f.split("=")[0]: int(f.split("=")[1]) for f in w[2:]}
        for tag, dst in (("BIGSX ", threwS), ("BIGCX ", threwC)):
            if ln.startswith(tag):
                w = ln.split(" ", 2); dst[int(w[1])] = w[2] if len(w) > 2 else ""
    threw = {}
    for ln in out.splitlines():
        if ln.startswith("BIGX "):
            w = ln.split(" ", 2); threw[int(w[1])] = w[2] if len(w) > 2 else ""
    for k, t in enumerate(texts):
        evaluations += 1
        want = big_eval(t["text"], kws, ends); d = got.get(k); what = None
        if k in threw:
            what = "big grammar: parse() threw '%s'" % threw[k][:120]
        elif d is None:
            what = "program produced no result line (crashed?) rc=%s" % res.get("rc")
        elif d["acc"] != want["acc"]:
            what = "big grammar: " + ("recovery failed although the input continues with a synchronising ';'" if want["acc"] else "a parse that runs out of input while discarding returned a value")
        elif want["acc"] and (d["n"] != want["n"] or d["h"] != want["h"]):
            what = "big grammar: values kept/discarded by recovery (or computed by the rules) differ from the independent evaluation"
        elif d["errs"] != want["errs"]:
            what = "big grammar: %d syntax errors reported, %d expected" % (d["errs"], want["errs"])
        if not what:
            # the other buffer kinds must give the same result; the fixed stacks of cstring_buffer<N> hold N + 1 empty rule + 1 entries (F11 scope: deeper is excluded)
            for kind, gk, tk in (("string_buffer", gotS, threwS), ("cstring_buffer", gotC, threwC)):
                if k in tk:
                    if kind == "cstring_buffer" and "out of range" in tk[k] and want["depth"] > len(t["text"]) + 3:
                        labels["big-grammar:excluded-F11"] = labels.get("big-grammar:excluded-F11", 0) + 1
                        continue
                    what = "big grammar: parse through %s threw '%s' while string_view_buffer gave a result" % (kind, tk[k][:100]); break
                if gk.get(k) != d:
                    what = "big grammar: %s and string_view_buffer give different results for the same text" % kind; break
        if what:
            vp = os.path.join(viol_dir, "%s_big_%s.json" % (pid, hashlib.sha1(t["text"].encode()).hexdigest()[:10]))
            json.dump({"check": pid, "kind": "programbig", "compiler": cxx, "what": what, "observed": d, "expected": want, "texts": [t], "K": K, "source": big_grammar_source(K, [t])[0]}, open(vp, "w"))
            violations.append((what + " (%s)" % cxx, vp))
            continue
        if want["errs"] or want["n"] >= 3:
            nontrivial.add(("big", t["text"]))
        labels["big-grammar:" + ("recovered" if want["errs"] and want["acc"] else "failed" if not want["acc"] else "clean")] = labels.get("big-grammar:" + ("recovered" if want["errs"] and want["acc"] else "failed" if not want["acc"] else "clean"), 0) + 1
    return violations, evaluations, nontrivial, notes, labels

# ---- C17b: rules that mention symbols which are not declared ------------------------------------------------------
def render_c17b(cases):
    parts = [PRELUDE]
    meta = []
    k = 0
    for gi, case in enumerate(cases):
        g = case["grammar"]
        nN = g["nN"]
        used_n = sorted({s["n"] for r in g["rules"] for s in r["rhs"] if "n" in s} | {r["lhs"] for r in g["rules"]} | {g["root"]})
        used_t = sorted({s["t"] for r in g["rules"] for s in r["rhs"] if "t" in s and s["t"] < g["nT"]})
        variants = []
        # drop one used nonterminal from nterms(...) (not the root: that is a different error), or one used terminal from terms(...)
        for n in used_n:
            if n != g["root"]:
                variants.append(("nterm", n))
        for t in used_t:
            variants.append(("term", t))
        if used_t:
            variants.insert(0, ("regex-name", used_t[0]))   # a rule names an undeclared regex term whose *display name* equals a declared regex term's
        variants.append(("none", -1))          # control: the untouched grammar must construct
        for kind, which in variants[:6] + [variants[-1]]:
            ns = "b%d" % k
            out = ["namespace %s {" % ns]
            out.append("constexpr nterm<uint64_t> " + ", ".join('N%d("%s")' % (i, nname(i, nN)) for i in range(nN)) + ";")
            # terms are string terms whose spellings are prefixes of each other, longest declared first (nothing is parsed here)
            tsp = lambda t: '"%s"' % ("t" * (g["nT"] - t))
            if (len(g["text"]) + gi) % 3 == 0 and kind != "regex-name":
                # every third grammar: the terminals are control-character char terms, whose ids are generated \\xHH strings (pairs share a low nibble or a 16-block)
                tsp = lambda t: ["'\\x01'", "'\\x11'", "'\\x0e'", "'\\x1e'", "'\\x81'", "'\\x02'"][t % 6]
            terms = [tsp(t) for t in range(g["nT"]) if not (kind == "term" and t == which)]
            if kind == "regex-name":
                # terminal `which` is a declared regex term "num"; the rules use a different, undeclared regex term that is also called "num"
                out.append('constexpr char rpa[] = "x[0-9]+"; constexpr char rpb[] = "y[0-9a-f]+"; constexpr regex_term<rpa> RA("num"); constexpr regex_term<rpb> RB("num");')
                terms = [("RA" if t == which else tsp(t)) for t in range(g["nT"])]
                tsp = (lambda which_: (lambda t: "RB" if t == which_ else '"%s"' % ("t" * (g["nT"] - t))))(which)
            nts = ["N%d" % i for i in range(nN) if not (kind == "nterm" and i == which)]
            rules = []
            first_rule_first_symbol = False
            for ri, r in enumerate(g["rules"]):
                syms = []
                for si, s in enumerate(r["rhs"]):
                    if "n" in s:
                        syms.append("N%d" % s["n"])
                        if kind == "nterm" and s["n"] == which and ri == 0 and si == 0:
                            first_rule_first_symbol = True
                    elif s["t"] == g["nT"] + 1:
                        syms.append("error")
                    else:
                        syms.append(tsp(s["t"]))
                        if kind == "term" and s["t"] == which and ri == 0 and si == 0:
                            first_rule_first_symbol = True
                rules.append("N%d(%s) >= hh::G<%d>{}" % (r["lhs"], ", ".join(syms), r["slot"]))
            out.append("struct M { static constexpr auto make() { return parser(N%d, terms(%s), nterms(%s), rules(\n    %s)); } };" % (
                g["root"], ", ".join(terms) if terms else '"z"', ", ".join(nts), ",\n    ".join(rules)))
            out.append('void run() { int threw = 0; try { auto q = new auto(M::make()); delete q; } catch (const std::exception&) { threw = 1; } std::printf("BAD %s ce=%%d threw=%%d\\n", hh::probe_make<M>(0), threw); }' % ns)
            out.append("}")
            parts.append("\n".join(out))
            meta.append({"ns": ns, "grammar": g["text"], "removed": kind, "which": which, "expect_reject": kind != "none", "first_symbol_of_first_rule": first_rule_first_symbol})
            k += 1
    parts.append("int main() { hh::big_stack([] {")
    for m in meta:
        parts.append("  %s::run();" % m["ns"])
    parts.append("}); return 0; }")
    return "\n".join(parts), meta


# ---- C13: contexts through the DSL front end (operator order, >= / >>= mix) ---------------------------------------
C13_PRELUDE = r"""
namespace cc {
inline int& copies() { static int n = 0; return n; }
// the caller's context: copies and moves of it are counted (a parse hands the caller's OBJECT to the functors; it never needs another one)
struct Ctx { std::vector<int> seen; Ctx() = default; Ctx(const Ctx& o) : seen(o.seen) { ++copies(); } Ctx(Ctx&& o) : seen(std::move(o.seen)) { ++copies(); }
             Ctx& operator=(const Ctx& o) { seen = o.seen; ++copies(); return *this; } Ctx& operator=(Ctx&& o) { seen = std::move(o.seen); ++copies(); return *this; } };
inline int& missing() { static int m = 0; return m; }
// a contextual functor that has no use for the context and says so with the library's placeholder type
template<int R> struct FSK { template<class... A> uint64_t operator()(skip, A&&... a) const { return hh::F<R>{}(a...); } };
// callable with and without a context: a rule that silently lost its 'contextual' flag is observed at run time
template<int R> struct FC2 {
  template<class... A> uint64_t operator()(Ctx& c, A&&... a) const { c.seen.push_back(R); return hh::F<R>{}(a...); }
  template<class... A> uint64_t operator()(const Ctx& c, A&&... a) const { (void)c; return hh::F<R>{}(a...); }
  template<class... A> uint64_t operator()(Ctx&& c, A&&... a) const { c.seen.push_back(R); return hh::F<R>{}(a...); }          // context_parse(std::move(ctx), ...): still the caller's object
  template<class... A> uint64_t operator()(no_type, A&&... a) const { return hh::F<R>{}(a...); }      // plain parse(): the context is no_type
  template<class... A> uint64_t operator()(A&&... a) const { missing()++; return hh::F<R>{}(a...); }
};
}
"""


def c13_contextual(r):
    return (r["slot"] % 2 == 1) and not r.get("default_functor")


def c13_skipctx(r):
    """contextual rules whose functor takes the context as `skip`"""
    return c13_contextual(r) and r["slot"] % 3 == 0


def render_c13(gi, case, rnd):
    g = case["grammar"]
    ns = "g%d" % gi
    nN = g["nN"]
    out = ["namespace %s {" % ns]
    out.append("constexpr nterm<uint64_t> " + ", ".join('N%d("%s")' % (i, nname(i, nN)) for i in range(nN)) + ";")
    terms = []
    for t, ti in enumerate(g["terms"]):
        ch = chr(ord('a') + t)
        assoc = ["no_assoc", "ltor", "rtol"][ti["assoc"]]
        if ti["prec"] != 0 or ti["assoc"] != 0:
            out.append("constexpr char_term t%d('%s', %d, associativity::%s);" % (t, ch, ti["prec"], assoc))
            terms.append("t%d" % t)
        else:
            terms.append("'%s'" % ch)
    # extra precedences are only harmless where no cell consults them: a grammar with error rules may well have shift/reduce conflicts
    # (false alarm 10: decorated "recovery" grammars were resolved differently from the undecorated grammar the reference had seen)
    conflict_free = not case.get("has_sr", True)
    rules = []
    forms = []
    named = []
    for r in g["rules"]:
        syms = []
        for sy in r["rhs"]:
            if "n" in sy:
                syms.append("N%d" % sy["n"])
            elif sy["t"] == g["nT"] + 1:
                syms.append("error")
            else:
                syms.append("'%s'" % chr(ord('a') + sy["t"]))
        base = "N%d(%s)" % (r["lhs"], ", ".join(syms))
        prec = r.get("prec")
        if prec is None and conflict_free and rnd.random() < 0.5:
            prec = rnd.choice([1, 2, -1])        # harmless in a conflict-free grammar: exercises operator[] in both orders
        if r.get("default_functor"):
            txt = base + ("[%d]" % prec if prec is not None else "")
            forms.append("default")
        else:
            f = ("cc::FSK<%d>{}" % r["slot"]) if c13_skipctx(r) else ("cc::FC2<%d>{}" % r["slot"]) if c13_contextual(r) else ("hh::F<%d>{}" % r["slot"])
            if r["slot"] % 4 == 1 or r["slot"] % 4 == 2:
                # the functor is a named object (an lvalue: shared by rules, or a constant such as ftors::_e3) instead of a temporary
                nm = "nf%d_%d" % (gi, len(named))
                named.append("constexpr auto %s = %s;" % (nm, f))
                f = nm
            op = ">>=" if c13_contextual(r) else ">="
            if prec is not None and rnd.random() < 0.5:
                txt = "(%s %s %s)[%d]" % (base, op, f, prec)
                forms.append("functor-then-precedence")
            else:
                txt = "%s%s %s %s" % (base, "[%d]" % prec if prec is not None else "", op, f)
                forms.append("precedence-then-functor" if prec is not None else "plain")
        rules.append(txt)
    out += named
    out.append("#define C%d_ARGS N%d, terms(%s), nterms(%s), rules(\\\n    %s)" % (gi, g["root"], ", ".join(terms), ", ".join("N%d" % i for i in range(nN)), ", \\\n    ".join(rules)))
    out.append("void run_all() {")
    out.append("  auto p = new parser(C%d_ARGS);" % gi)
    for k, inp in enumerate(case["inputs"]):
        lit = cstr(bytes.fromhex(inp["hex"]))
        n = len(bytes.fromhex(inp["hex"]))
        opts = "parse_options{}.set_skip_whitespace(%s).set_skip_newline(%s)" % ("true" if inp["ws"] else "false", "true" if inp["nl"] else "false")
        out.append('  { static const char lit[] = %s; cc::Ctx c; cc::missing() = 0; cc::copies() = 0; std::ostringstream os; auto r = p->context_parse(c, %s, string_view_buffer(std::string_view(lit, %d)), os);' % (lit, opts, n))
        out.append('    const cc::Ctx cconst; std::ostringstream os2; auto r2 = p->context_parse(cconst, %s, string_view_buffer(std::string_view(lit, %d)), os2); int missing_ctx = cc::missing(); utils::no_stream ns; auto r3 = p->parse(%s, string_view_buffer(std::string_view(lit, %d)), ns);' % (opts, n, opts, n))
        out.append('    cc::Ctx c4; std::ostringstream os4; auto r4 = p->context_parse(std::move(c4), %s, string_view_buffer(std::string_view(lit, %d)), os4); int cpy = cc::copies() + ((c4.seen == c.seen && r4.has_value() == r.has_value()) ? 0 : 1000);' % (opts, n))
        out.append('    std::printf("CTX %s %d acc=%%d missing=%%d same=%%d cpy=%%d seen=", r.has_value() ? 1 : 0, missing_ctx, (r.has_value() == r2.has_value() && r.has_value() == r3.has_value() && (!r.has_value() || (r.value() == r2.value() && r.value() == r3.value()))) ? 1 : 0, cpy); for (int x : c.seen) std::printf("%%d,", x); std::printf("\\n"); }' % (ns, k))
    out.append("  delete p;")
    out.append("}")
    out.append("}")
    return "\n".join(out), forms


COMPILERS = {
    "g++": ["g++", "-std=c++17", "-O0", "-fconstexpr-ops-limit=2000000000", "-fconstexpr-loop-limit=100000000", "-fconstexpr-depth=4096", "-w"],
    "clang++": ["clang++", "-std=c++17", "-O0", "-fconstexpr-steps=2000000000", "-fconstexpr-depth=4096", "-fbracket-depth=1024", "-w"],
}


def compile_and_run(src, cxx, timeout=900):
    exe = src[:-4] + "." + cxx.replace("+", "x")
    cmd = COMPILERS[cxx] + ["-I" + os.path.join(REPO, "include"), src, "-o", exe, "-lpthread"]
    t = time.time()
    try:
        r = subprocess.run(cmd, stdout=subprocess.PIPE, stderr=subprocess.STDOUT, timeout=timeout)
    except subprocess.TimeoutExpired:
        return {"compiled": False, "timeout": True, "log": "compile timeout", "secs": time.time() - t}
    if r.returncode != 0:
        return {"compiled": False, "timeout": False, "log": r.stdout.decode("utf-8", "replace")[-4000:], "secs": time.time() - t}
    try:
        r2 = subprocess.run([exe], stdout=subprocess.PIPE, stderr=subprocess.STDOUT, timeout=300)
        out = r2.stdout.decode("utf-8", "replace")
        rc = r2.returncode
    except subprocess.TimeoutExpired:
        out, rc = "", -9
    try:
        os.unlink(exe)
    except OSError:
        pass
    return {"compiled": True, "rc": rc, "out": out, "secs": time.time() - t}


def parse_case_lines(out):
    res = {}
    for ln in out.splitlines():
        if not ln.startswith("CASE "):
            continue
        w = ln.split()
        key = (w[1], int(w[2]))
        d = {}
        for f in w[3:]:
            if "=" not in f:
                d.setdefault("_malformed", []).append(f)          # a torn line (the program died while printing): the missing fields are reported as a failed case
                continue
            k, v = f.split("=", 1)
            d[k] = v
        res[key] = d
    return res


def emit_cases(seed, n, work, spelling=True, only_class=None, named_terms=False, always_spelled=False, same_names=False):
    ok, eg, log = BUILD.ensure_emitter("e_grammar", REPO)
    if not ok:
        return None, log
    out = os.path.join(work, "emit.json")
    env = dict(os.environ)
    if not spelling:
        env["EMIT_NO_SPELLING"] = "1"
    if only_class is not None:
        env["EMIT_ONLY_CLASS"] = str(only_class)
    if named_terms:
        env["EMIT_NAMED_TERMS"] = "1"
    if always_spelled:
        env["EMIT_ALWAYS_SPELLED"] = "1"
    if same_names:
        env["EMIT_SAME_NAMES"] = "1"; env["EMIT_NAMED_TERMS"] = "1"
    if os.environ.get("_EMIT_PID") in ("C11", "C17", "C01"):
        env["EMIT_CONTROL_TERMS"] = "1"
    if os.environ.get("_EMIT_PID") in ("C01", "C02"):
        env["EMIT_SEED_GALLERY"] = "1"
    if os.environ.get("_EMIT_PID") in ("C09", "C10"):
        env["EMIT_GIANT_LEXEME"] = "1"
    if os.environ.get("_EMIT_PID") == "C18":
        env["EMIT_LONG_NAMES"] = "1"
    if os.environ.get("_EMIT_PID") == "C10":
        env["EMIT_NEWLINE_TERM"] = "1"
    if os.environ.get("_EMIT_PID") == "C07":
        env["EMIT_NUL_TERM"] = "1"
    r = subprocess.run([eg, "--prop", "C07", "--mode", "emit", "--seed", str(seed), "--cases", str(n), "--size", "400", "--out", out], stdout=subprocess.PIPE, stderr=subprocess.STDOUT, env=env)
    if not os.path.exists(out):
        return None, r.stdout.decode("utf-8", "replace")[-3000:]
    return json.load(open(out))["cases"], ""


def run(pid, tier, seed, work, viol_dir, known_ids=()):
    t0 = time.time()
    excluded = {}
    if pid in ("C08", "C12"):
        violations, evaluations, nontrivial, notes, labels = run_big(pid, tier, seed, work, viol_dir)
        for n in notes:
            print("NOTE:", n)
        return (1 if violations else 0), {"evaluations": evaluations, "nontrivial": len(nontrivial), "labels": labels, "samples": [{"big-grammar": "30 statement contexts kwNN expr eNN ';', each with an error rule, bracket error rule, list-level error rule; see vlib/compiled.py big_grammar_source"}], "violations": violations, "notes": notes, "wall": time.time() - t0, "programs": 1, "excluded_known": {}}
    if pid == "C03":
        ok, er, log = BUILD.ensure_emitter("e_regex", REPO)
        if not ok:
            print("HARNESS-BUILD-FAILED engine=e_regex (emit)")
            print(log[-3000:])
            return 2, None
        outp = os.path.join(work, "emit_rx.json")
        subprocess.run([er, "--prop", "C03", "--mode", "emit", "--seed", str(seed % 0x7FFFFFFF or 1), "--cases", str({"quick": 16, "thorough": 160}[tier]), "--size", "80", "--out", outp], stdout=subprocess.PIPE, stderr=subprocess.STDOUT)
        if not os.path.exists(outp):
            print("HARNESS-ERROR e_regex emit produced nothing")
            return 2, None
    if pid == "C03":
        cases = json.load(open(outp))["cases"]
        log = ""
    ncases = {"C03": {"quick": 16, "thorough": 160}, "C07": {"quick": 24, "thorough": 240}, "C17": {"quick": 8, "thorough": 60}, "C13": {"quick": 16, "thorough": 160},
              "C01": {"quick": 32, "thorough": 160}, "C02": {"quick": 32, "thorough": 160}, "C05": {"quick": 16, "thorough": 160}, "C09": {"quick": 16, "thorough": 160}, "C18": {"quick": 12, "thorough": 120}, "C10": {"quick": 12, "thorough": 120}, "C11": {"quick": 12, "thorough": 120}, "C16": {"quick": 12, "thorough": 120}}[pid][tier]
    os.environ["_EMIT_PID"] = pid
    if pid != "C03":
      cases, log = emit_cases((seed + {"C01": 101, "C02": 202, "C05": 505, "C09": 909, "C18": 1818, "C10": 1010, "C11": 1111, "C16": 1616}.get(pid, 0)) % 0x7FFFFFFF or 1, ncases, work, spelling=(pid in ("C07", "C01", "C02", "C05", "C09", "C18", "C10", "C11", "C16")), only_class=(1 if pid == "C05" else None), named_terms=(pid == "C09"), always_spelled=(pid in ("C18", "C10", "C11", "C16")), same_names=(pid in ("C01", "C02")))
    if cases is None:
        print("HARNESS-BUILD-FAILED engine=e_grammar (emit)")
        print(log)
        return 2, None
    violations = []
    evaluations = 0
    nontrivial = set()
    samples = []
    labels = {}
    notes = []

    def lab(k, n=1):
        labels[k] = labels.get(k, 0) + n

    lite = pid in ("C01", "C02", "C05", "C09", "C18", "C10", "C11", "C16")
    global VERBOSE_RUNS
    VERBOSE_RUNS = pid == "C16"
    ctxmix = pid == "C05"
    customlex = pid == "C18"
    # C16 gets a second pass over a few of its grammars rendered as full programs (constexpr-constructed parser, constexpr parses): the verbose / non-verbose pair at compile time
    passes = [lite] + ([False] if pid == "C16" else [])
    all_cases = cases
    for pass_no, lite in enumerate(passes):
      cases = all_cases if pass_no == 0 else all_cases[:{"quick": 3, "thorough": 24}[tier]]
      if pass_no:
          VERBOSE_RUNS = False
      if pid == "C07" or pid in ("C01", "C02", "C05", "C09", "C18", "C10", "C11", "C16"):
          per_tu = 1
          groups = [list(range(i, min(i + per_tu, len(cases)))) for i in range(0, len(cases), per_tu)]
          jobs = []
          for gi, idxs in enumerate(groups):
              src = os.path.join(work, "prog_%d.cpp" % gi)
              open(src, "w").write(render_program(cases, idxs, lite, ctxmix, customlex))
              for cxx in (("clang++",) if (lite and gi % 2) else ("g++",) if lite else ("g++", "clang++")):
                  jobs.append((gi, idxs, src, cxx))
          with ThreadPoolExecutor(max_workers=16) as ex:
              results = list(ex.map(lambda j: (j, compile_and_run(j[2], j[3])), jobs))
          for (gi, idxs, src, cxx), res in results:
              if not res["compiled"]:
                  if res.get("timeout"):
                      notes.append("compile of %s with %s hit the time ceiling (inconclusive)" % (os.path.basename(src), cxx))
                      continue
                  vp = os.path.join(viol_dir, "%s_compile_%s_%s.json" % (pid, cxx.replace("+", "x"), hashlib.sha1(open(src, "rb").read()).hexdigest()[:10]))
                  json.dump({"check": pid, "kind": "program", "compiler": cxx, "source": open(src).read(), "what": "generated program does not compile", "log": res["log"], "cases": [cases[i] for i in idxs], "idxs": idxs}, open(vp, "w"))
                  errs = [l for l in res["log"].splitlines() if "error" in l][:1]
                  violations.append(("program that parses at compile time does not compile with %s: %s" % (cxx, errs[0][:200] if errs else ""), vp))
                  continue
              got = parse_case_lines(res["out"])
              for gidx in idxs:
                  case = cases[gidx]
                  for k, inp in enumerate(case["inputs"]):
                      evaluations += 1
                      key = ("g%d" % gidx, k)
                      want_acc = 1 if inp["accept"] else 0
                      want_val = inp["value"] if inp["accept"] else "0"
                      want_msg = inp["messages_hex"]
                      d = got.get(key)
                      what = None
                      # known finding F11: cstring_buffer<N> selects fixed stacks of N + EmptyRulesCount + 1 entries
                      empty_rules = sum(1 for r in case["grammar"]["rules"] if not r["rhs"])
                      f11 = "F11" in known_ids and inp.get("max_depth", 0) > len(bytes.fromhex(inp["hex"])) + 1 + empty_rules + 1
                      if d is None:
                          what = "program produced no result line (crashed?) rc=%s" % res.get("rc")
                      elif f11 and d["ce"].split(":")[0] == "-1" and d["cs"].startswith("EXC") and d["r_cs"].startswith("EXC") and all(
                              d[tag].split(":")[0] == str(want_acc) and (not want_acc or d[tag].split(":")[1] == want_val) and d[tag].split(":")[2] == want_msg for tag in ("sb", "sv", "svs", "sbc", "r_sb", "r_sv")):
                          excluded["F11"] = excluded.get("F11", 0) + 1
                          continue
                      elif lite:
                          for tag in ("sb", "sv", "svs"):
                              a, v, m = d[tag].split(":")
                              if a == "EXC":
                                  what = "run-time parse (%s) threw: %s (%s)" % (tag, bytes.fromhex(m).decode("utf-8", "replace"), cxx)
                              elif int(a) != want_acc:
                                  what = ("a derivable input was rejected" if want_acc else "an underivable input was accepted") + " by a parser written in the DSL (%s, %s)" % (tag, cxx)
                              elif pid == "C02" and want_acc and v != want_val:
                                  what = "result differs from the bottom-up evaluation of the derivation tree (%s, %s)" % (tag, cxx)
                              elif pid == "C05" and want_acc and v != want_val:
                                  what = "expression grouped against the documented precedence/associativity rules in a parser written in the DSL (%s, %s)" % (tag, cxx)
                              elif pid == "C09" and m != want_msg:
                                  what = "error report differs from the reference (%s, %s)" % (tag, cxx)
                              elif pid == "C16" and tag in ("sb", "sv"):
                                  what = check_verbose(d, tag, a, v, m, inp, cxx)
                              elif pid == "C10" and m != want_msg:
                                  what = "a position in an error message is not the true line/column (%s, %s)" % (tag, cxx)
                              elif pid == "C10" and d.get("p" + tag) != inp.get("posdigest"):
                                  what = "a term value handed to a rule functor does not carry the true line/column of its first character (digest over all functor calls; get_sp() and get_line()/get_column(); %s, %s)" % (tag, cxx)
                              elif pid == "C18" and ((want_acc and v != want_val) or m != want_msg):
                                  what = "a parser over custom terms with a hand-written longest-match lexer (use_lexer) gives %s than the reference gives for the generated lexer (%s, %s)" % ("another value" if (want_acc and v != want_val) else "other messages", tag, cxx)
                              if what:
                                  break
                      else:
                          ce = d["ce"].split(":")
                          if ce[0] != "-1" and "cev" in d and d["cev"] != d["ce"]:
                              what = "the same compile-time parse with verbose switched on %s (%s)" % ("is not a constant expression" if d["cev"].startswith("-1") else "gives another result", cxx)
                          elif pid == "C16":
                              pass           # C16 looks only at the verbose/non-verbose pair here; everything else about these programs is C07's business
                          elif ce[0] == "-1":
                              what = "parsing this input during constant evaluation is not a constant expression (%s)" % cxx
                          elif int(ce[0]) != want_acc or (want_acc and ce[1] != want_val):
                              what = "compile-time result differs from the reference (%s)" % cxx
                          else:
                              for tag in ("cs", "sb", "sv", "svs", "sbc", "r_cs", "r_sb", "r_sv"):
                                  a, v, m = d[tag].split(":")
                                  if a == "EXC":
                                      what = "run-time parse (%s) threw: %s (%s)" % (tag, bytes.fromhex(m).decode("utf-8", "replace"), cxx)
                                      break
                                  if int(a) != want_acc or (want_acc and v != want_val):
                                      what = "run-time result (%s) differs from the compile-time result / reference (%s)" % (tag, cxx)
                                      break
                                  if m != want_msg:
                                      what = "run-time messages (%s) differ from the reference (%s)" % (tag, cxx)
                                      break
                      if what:
                          vp = os.path.join(viol_dir, "%s_%s.json" % (pid, hashlib.sha1((json.dumps(case["grammar"]) + inp["hex"] + cxx).encode()).hexdigest()[:12]))
                          one = dict(case)
                          one["inputs"] = [inp]
                          json.dump({"check": pid, "kind": "program", "lite": lite, "compiler": cxx, "what": what, "observed": d, "cases": [one], "idxs": [0], "source": render_program([one], [0], lite, ctxmix, customlex)}, open(vp, "w"))
                          violations.append((what, vp))
                          continue
                      ntoks = inp.get("tokens", 0)
                      if (not inp["accept"]) or ntoks >= 5:
                          nontrivial.add((case["grammar"]["text"], inp["hex"], inp["ws"], inp["nl"]))
                          lab("kind:" + inp["kind"])
                      lab("compiler:" + cxx)
                  if pid == "C11":
                      evaluations += 1
                      dline = [ln for ln in res["out"].splitlines() if ln.startswith("DIAG g%d " % gidx)]
                      what11 = None
                      if not dline:
                          what11 = "program printed no diagnostic text (crashed?)"
                      else:
                          text = bytes.fromhex(dline[0].split()[2]).decode("latin-1")
                          what11 = check_diag_text(text, case)
                      if what11:
                          vp = os.path.join(viol_dir, "%s_diag_%s.json" % (pid, hashlib.sha1((json.dumps(case["grammar"]) + cxx).encode()).hexdigest()[:12]))
                          one = dict(case); one["inputs"] = case["inputs"][:1]
                          json.dump({"check": pid, "kind": "program", "lite": lite, "compiler": cxx, "what": what11 + " (%s)" % cxx, "cases": [one], "idxs": [0], "source": render_program([one], [0], lite, ctxmix, customlex)}, open(vp, "w"))
                          violations.append((what11 + " (%s)" % cxx, vp))
                      else:
                          nontrivial.add(("diag", case["grammar"]["text"], cxx))
                  lab("class:" + case["class"])
                  if case.get("spelling"):
                      lab("spelled-terms")
                      for sp in case["spelling"]:
                          lab("term-kind:" + {"c": "char", "s": "string", "r": "regex(named)", "R": "regex(unnamed)", "t": "typed(char)", "T": "typed(named regex)"}[sp["kind"]])
          for case in cases[:3]:
              samples.append({"grammar": case["grammar"]["text"], "class": case["class"], "inputs": [i["text"] for i in case["inputs"]][:8]})
          if pid == "C07":
              # results that KEEP views into the caller's buffer: the same agreement (constant evaluation / three run-time buffers / two overloads), plus
              # "the views point into the caller's buffer and read the right text"
              texts = gen_c07v_texts(seed, {"quick": 24, "thorough": 200}[tier])
              vsrc = os.path.join(work, "views.cpp")
              open(vsrc, "w").write(render_c07v(texts))
              for cxx in ("g++", "clang++"):
                  res = compile_and_run(vsrc, cxx)
                  if not res["compiled"]:
                      if res.get("timeout"):
                          notes.append("compile of views.cpp with %s hit the time ceiling (inconclusive)" % cxx)
                          continue
                      vp = os.path.join(viol_dir, "C07_compile_views_%s.json" % cxx.replace("+", "x"))
                      json.dump({"check": pid, "kind": "program07v", "compiler": cxx, "source": open(vsrc).read(), "what": "generated program does not compile", "log": res["log"], "texts": texts}, open(vp, "w"))
                      errs = [l for l in res["log"].splitlines() if "error" in l][:1]
                      violations.append(("a program whose parse result keeps string_view lexemes of the caller's buffer does not compile with %s: %s" % (cxx, errs[0][:200] if errs else ""), vp))
                      continue
                  got = {}
                  for ln in res["out"].splitlines():
                      if ln.startswith("VIEW "):
                          w = ln.split()
                          got[int(w[1])] = {f.split("=")[0]: int(f.split("=")[1]) for f in w[2:]}
                  for k, t in enumerate(texts):
                      evaluations += 1
                      want = 2 if t["ok"] else 0
                      d = got.get(k)
                      what = None
                      if d is None:
                          what = "program produced no result line (crashed?) rc=%s" % res.get("rc")
                      elif d["ce"] == -1:
                          what = "parsing a static cstring_buffer and reading the lexeme views the result keeps is not a constant expression (%s)" % cxx
                      else:
                          for tag, name in (("ce", "constant evaluation"), ("cs", "cstring_buffer"), ("sb", "string_buffer"), ("sv", "string_view_buffer"), ("cs0", "parse(cstring_buffer)"), ("sb0", "parse(string_buffer)")):
                              if d[tag] != want:
                                  what = "%s: %s (%s)" % (name, {0: "a text of the language was rejected", 1: "the lexeme views kept by the result do not point into the caller's buffer / read other text", 2: "a text outside the language was accepted", 3: "parse threw"}[d[tag]], cxx)
                                  break
                      if what:
                          vp = os.path.join(viol_dir, "C07_views_%s_%s.json" % (cxx.replace("+", "x"), hashlib.sha1(t["text"].encode()).hexdigest()[:10]))
                          json.dump({"check": pid, "kind": "program07v", "compiler": cxx, "what": what, "observed": d, "texts": [t], "source": render_c07v([t])}, open(vp, "w"))
                          violations.append((what, vp))
                          continue
                      if len(t["words"]) >= 2 or not t["ok"]:
                          nontrivial.add(("views", t["text"]))
                  lab("views-program:" + cxx)
    cases = all_cases
    if pid == "C03":
        # regex::expr<P> constructed at compile time: constexpr match("lit") via probe, run-time match through two buffers
        pats = cases
        jobs = []
        per = 4
        for gi in range(0, len(pats), per):
            parts = [PRELUDE, "template<class T, bool = (T::run(), true)> constexpr int probe_b(int) { return T::run() ? 1 : 0; }\ntemplate<class T> constexpr int probe_b(...) { return -1; }"]
            body = ["int main() {"]
            for pi in range(gi, min(gi + per, len(pats))):
                c = pats[pi]
                parts.append("constexpr char pat%d[] = %s;\nconstexpr regex::expr<pat%d> rx%d;\nstatic_assert(regex::expr<pat%d>::dfa_size == %d, \"dfa_size\");" % (pi, cstr(bytes.fromhex(c["pattern_hex"])), pi, pi, pi, c["dfa_size"]))
                for k, st_ in enumerate(c["strings"]):
                    b = bytes.fromhex(st_["hex"])
                    parts.append("struct m%d_%d { static constexpr bool run() { return rx%d.match(%s); } };" % (pi, k, pi, cstr(b)))
                    body.append('  { static const char lit[] = %s; std::printf("RX %d %d ce=%%d sb=%%d sv=%%d\\n", probe_b<m%d_%d>(0), rx%d.match(string_buffer(std::string(lit, %d))) ? 1 : 0, rx%d.match(string_view_buffer(std::string_view(lit, %d))) ? 1 : 0); }' % (cstr(b), pi, k, pi, k, pi, len(b), pi, len(b)))
            body.append("  return 0; }")
            src = os.path.join(work, "rx_%d.cpp" % gi)
            open(src, "w").write("\n".join(parts + body))
            for cxx in ("g++", "clang++"):
                jobs.append((gi, src, cxx))
        with ThreadPoolExecutor(max_workers=16) as ex:
            results = list(ex.map(lambda j: (j, compile_and_run(j[1], j[2])), jobs))
        for (gi, src, cxx), res in results:
            if not res["compiled"]:
                if res.get("timeout"):
                    notes.append("compile of %s with %s hit the time ceiling (inconclusive)" % (os.path.basename(src), cxx))
                    continue
                vp = os.path.join(viol_dir, "%s_compile_%s_%s.json" % (pid, cxx.replace("+", "x"), hashlib.sha1(open(src, "rb").read()).hexdigest()[:10]))
                json.dump({"check": pid, "kind": "program03", "compiler": cxx, "source": open(src).read(), "what": "generated program does not compile", "log": res["log"]}, open(vp, "w"))
                errs = [l for l in res["log"].splitlines() if "error" in l][:1]
                violations.append(("a program with compile-time constructed regex::expr matchers for valid patterns does not compile with %s: %s" % (cxx, errs[0][:200] if errs else ""), vp))
                continue
            got = {}
            for ln in res["out"].splitlines():
                if ln.startswith("RX "):
                    w = ln.split()
                    got[(int(w[1]), int(w[2]))] = {f.split("=")[0]: int(f.split("=")[1]) for f in w[3:]}
            for pi in range(gi, min(gi + per, len(pats))):
                c = pats[pi]
                for k, st_ in enumerate(c["strings"]):
                    evaluations += 1
                    want = 1 if st_["accept"] else 0
                    d = got.get((pi, k))
                    what = None
                    if d is None:
                        what = "no result line"
                    elif d["ce"] == -1:
                        what = "regex::expr::match on this string is not a constant expression (%s)" % cxx
                    elif d["ce"] != want or d["sb"] != want or d["sv"] != want:
                        what = "compile-time constructed matcher for %r %s (constexpr=%d string_buffer=%d string_view=%d, %s)" % (c["pattern"], "rejects a string of the language" if want else "accepts a string outside the language", d["ce"], d["sb"], d["sv"], cxx)
                    if what:
                        vp = os.path.join(viol_dir, "%s_%s.json" % (pid, hashlib.sha1((c["pattern_hex"] + st_["hex"] + cxx).encode()).hexdigest()[:12]))
                        json.dump({"check": pid, "kind": "program03", "compiler": cxx, "what": what, "pattern": c["pattern"], "string_hex": st_["hex"], "expected_accept": st_["accept"], "observed": d, "source": open(src).read(), "key": [pi, k]}, open(vp, "w"))
                        violations.append((what, vp))
                        continue
                    if len(bytes.fromhex(st_["hex"])) >= 2:
                        nontrivial.add((c["pattern_hex"], st_["hex"]))
                    if c["f5"]:
                        excluded["F5(expected = model automaton)"] = excluded.get("F5(expected = model automaton)", 0) + (1 if st_["accept"] != st_["spec_accept"] else 0)
                lab("compiler:" + cxx)
        samples = [{"pattern": c["pattern"], "strings": [bytes.fromhex(x["hex"]).decode("latin-1") for x in c["strings"]][:6], "f5": c["f5"]} for c in pats[:3]]
    elif pid == "C13":
        import random
        rnd = random.Random(seed)
        jobs = []
        forms_of = {}
        for gi, case in enumerate(cases):
            body, forms = render_c13(gi, case, rnd)
            forms_of[gi] = forms
            src = os.path.join(work, "ctx_%d.cpp" % gi)
            text = PRELUDE + "#include <vector>\n" + C13_PRELUDE + body + "\nint main() { hh::big_stack([] { g%d::run_all(); }); return 0; }\n" % gi
            open(src, "w").write(text)
            jobs.append((gi, src, "clang++" if gi % 2 else "g++"))
        with ThreadPoolExecutor(max_workers=16) as ex:
            results = list(ex.map(lambda j: (j, compile_and_run(j[1], j[2])), jobs))
        for (gi, src, cxx), res in results:
            case = cases[gi]
            if not res["compiled"]:
                if res.get("timeout"):
                    notes.append("compile of %s with %s hit the time ceiling (inconclusive)" % (os.path.basename(src), cxx))
                    continue
                vp = os.path.join(viol_dir, "%s_compile_%s_%s.json" % (pid, cxx.replace("+", "x"), hashlib.sha1(open(src, "rb").read()).hexdigest()[:10]))
                json.dump({"check": pid, "kind": "program13", "compiler": cxx, "source": open(src).read(), "what": "generated program does not compile", "log": res["log"], "case": case, "gi": gi}, open(vp, "w"))
                errs = [l for l in res["log"].splitlines() if "error" in l][:1]
                violations.append(("a grammar mixing '>=' and '>>=' functors (with operator[] before or after the functor) does not compile with %s: %s" % (cxx, errs[0][:200] if errs else ""), vp))
                continue
            got = {}
            for ln in res["out"].splitlines():
                if ln.startswith("CTX "):
                    w = ln.split()
                    got[int(w[2])] = {"acc": int(w[3].split("=")[1]), "missing": int(w[4].split("=")[1]), "same": int(w[5].split("=")[1]), "cpy": int(w[6].split("=")[1]), "seen": [int(x) for x in w[7].split("=")[1].split(",") if x]}
            ctx_slots = {r["slot"] for r in case["grammar"]["rules"] if c13_contextual(r) and not c13_skipctx(r)}
            for k, inp in enumerate(case["inputs"]):
                evaluations += 1
                want_seen = [sl for sl in inp.get("reduces", []) if sl in ctx_slots]
                d = got.get(k)
                what = None
                if d is None:
                    what = "program produced no result line (crashed?) rc=%s" % res.get("rc")
                elif d["missing"]:
                    what = "a functor attached with '>>=' was called without the caller's context (%d calls)" % d["missing"]
                elif d["acc"] != (1 if inp["accept"] else 0):
                    what = "context_parse outcome differs from the reference"
                elif d["seen"] != want_seen:
                    what = "contextual functors did not see the caller's context in reduction order"
                elif not d["same"]:
                    what = "parse, context_parse(non-const&) and context_parse(const&) disagree"
                elif d["cpy"] >= 1000:
                    what = "context_parse(std::move(ctx), ...): the functors did not work on the caller's object for the whole parse (it was moved from, or the result differs)"
                elif d["cpy"]:
                    what = "the caller's context object was copied or moved %d times during the parses (a functor that takes the context as `skip` included)" % d["cpy"]
                if what:
                    vp = os.path.join(viol_dir, "%s_%s.json" % (pid, hashlib.sha1((json.dumps(case["grammar"]) + inp["hex"] + cxx).encode()).hexdigest()[:12]))
                    json.dump({"check": pid, "kind": "program13", "compiler": cxx, "what": what, "observed": d, "expected_seen": want_seen, "input": inp, "source": open(src).read(), "gi": gi, "k": k, "forms": forms_of[gi]}, open(vp, "w"))
                    violations.append((what + " (%s)" % cxx, vp))
                    continue
                if len(want_seen) >= 3:
                    nontrivial.add((case["grammar"]["text"], inp["hex"]))
            for fm in forms_of[gi]:
                lab("rule-form:" + fm)
            lab("compiler:" + cxx)
        samples = [{"grammar": c["grammar"]["text"], "rule_forms": forms_of[i][:6]} for i, c in enumerate(cases[:3])]
    elif pid == "C17":  # C17 (b)
        src = os.path.join(work, "bad_0.cpp")
        text, meta = render_c17b(cases)
        open(src, "w").write(text)
        with ThreadPoolExecutor(max_workers=2) as ex:
            results = list(ex.map(lambda cxx: (cxx, compile_and_run(src, cxx)), ("g++", "clang++")))
        for cxx, res in results:
            if not res["compiled"]:
                if res.get("timeout"):
                    notes.append("compile with %s hit the time ceiling (inconclusive)" % cxx)
                    continue
                vp = os.path.join(viol_dir, "%s_compile_%s.json" % (pid, cxx.replace("+", "x")))
                json.dump({"check": pid, "kind": "program17", "compiler": cxx, "source": text, "what": "generated program does not compile", "log": res["log"]}, open(vp, "w"))
                errs = [l for l in res["log"].splitlines() if "error" in l][:1]
                violations.append(("probe program does not compile with %s: %s" % (cxx, errs[0][:200] if errs else ""), vp))
                continue
            got = {}
            for ln in res["out"].splitlines():
                if ln.startswith("BAD "):
                    w = ln.split()
                    got[w[1]] = (int(w[2].split("=")[1]), int(w[3].split("=")[1]))
            for m in meta:
                evaluations += 1
                g = got.get(m["ns"])
                what = None
                if g is None:
                    what = "no result line"
                elif m["expect_reject"] and (g[0] != -1 or g[1] != 1):
                    what = "a grammar that references an undeclared %s was constructed (constexpr probe=%d, run-time threw=%d, %s)" % ({"regex-name": "regex term (same display name as a declared one)"}.get(m["removed"], m["removed"]), g[0], g[1], cxx)
                elif (not m["expect_reject"]) and (g[0] != 1 or g[1] != 0):
                    what = "control: a grammar whose symbols are all declared was rejected (%s)" % cxx
                if what:
                    vp = os.path.join(viol_dir, "%s_%s.json" % (pid, hashlib.sha1((m["grammar"] + m["removed"] + str(m["which"]) + cxx).encode()).hexdigest()[:12]))
                    json.dump({"check": pid, "kind": "program17", "compiler": cxx, "what": what, "meta": m, "source": text}, open(vp, "w"))
                    violations.append((what, vp))
                elif m["expect_reject"]:
                    if not m["first_symbol_of_first_rule"]:
                        nontrivial.add((m["grammar"], m["removed"], m["which"]))
                    lab("undeclared-" + m["removed"])
                    lab("compiler:" + cxx)
        samples = [{"grammar": m["grammar"], "removed_from_declaration": "%s %s" % (m["removed"], m["which"])} for m in meta[:5]]
    if pid in ("C07", "C01", "C02"):
        # the big grammar (state numbers beyond 8 bits; C01: acceptance, C02: values, C07: the three buffer kinds): string_view_buffer, string_buffer and cstring_buffer must agree with the python reference and with each other
        bv, be, bnt, bnotes, blabels = run_big(pid, tier, seed, work, viol_dir)
        violations += bv; evaluations += be; notes += bnotes
        for x in bnt:
            nontrivial.add(x)
        for kk, vv in blabels.items():
            labels[kk] = vv
    return (1 if violations else 0), {"evaluations": evaluations, "nontrivial": len(nontrivial), "samples": samples, "labels": labels, "violations": violations, "notes": notes, "wall": time.time() - t0, "programs": len(cases), "excluded_known": excluded}


def replay(path):
    """recompile and rerun a saved program case; exit 1 if it still fails"""
    d = json.load(open(path))
    work = os.path.join(ROOT, "work", "replay_prog")
    shutil.rmtree(work, ignore_errors=True)
    os.makedirs(work)
    src = os.path.join(work, "prog.cpp")
    open(src, "w").write(d["source"])
    res = compile_and_run(src, d["compiler"])
    if not res["compiled"]:
        print("REPLAY %s FAIL does not compile with %s" % (d["check"], d["compiler"]))
        print(res["log"][-1500:])
        return 1
    print(res["out"][:3000])
    if d["kind"] == "programbig":
        K = d.get("K", 24); kws = ["kw%02d" % i for i in range(K)]; ends = ["e%02d" % i if i % 3 else chr(ord('A') + i // 3) for i in range(K)]
        bad = 0 if any(l.startswith("BIGINFO") for l in res["out"].splitlines()) else 1
        seen = 0
        for ln in res["out"].splitlines():
            if ln.startswith("BIGX ") or ln.startswith("BIGEXC"):
                bad += 1
            if ln.startswith("BIG "):
                seen += 1
                w = ln.split(); k = int(w[1]); vals = {f.split("=")[0]: int(f.split("=")[1]) for f in w[2:]}
                want = big_eval(d["texts"][k]["text"], kws, ends)
                if vals["acc"] != want["acc"] or (want["acc"] and (vals["n"] != want["n"] or vals["h"] != want["h"])) or vals["errs"] != want["errs"]:
                    bad += 1
        if seen < len(d["texts"]):
            bad += 1          # a text without a result line: the program died
        print("REPLAY %s %s" % (d["check"], "FAIL" if bad else "PASS"))
        return 1 if bad else 0
    if d["kind"] == "program07v":
        bad = 0
        for ln in res["out"].splitlines():
            if ln.startswith("VIEW "):
                w = ln.split(); k = int(w[1]); vals = {f.split("=")[0]: int(f.split("=")[1]) for f in w[2:]}
                want = 2 if d["texts"][k]["ok"] else 0
                if any(v != want for v in vals.values()):
                    bad += 1
        print("REPLAY %s %s" % (d["check"], "FAIL" if bad else "PASS"))
        return 1 if bad else 0
    if d["kind"] == "program03":
        key = d.get("key")
        for ln in res["out"].splitlines():
            if key and ln.startswith("RX %d %d " % (key[0], key[1])):
                w = ln.split(); vals = {f.split("=")[0]: int(f.split("=")[1]) for f in w[3:]}
                want = 1 if d["expected_accept"] else 0
                ok = vals["ce"] == want and vals["sb"] == want and vals["sv"] == want
                print("REPLAY %s %s" % (d["check"], "PASS" if ok else "FAIL"))
                return 0 if ok else 1
        print("REPLAY %s FAIL (no result)" % d["check"])
        return 1
    if d["kind"] == "program13":
        k = d.get("k")
        for ln in res["out"].splitlines():
            if k is not None and ln.startswith("CTX g%d %d " % (d["gi"], k)):
                w = ln.split()
                missing = int(w[4].split("=")[1]); same = int(w[5].split("=")[1]); cpy = int(w[6].split("=")[1]); seen = [int(x) for x in w[7].split("=")[1].split(",") if x]
                ok = (not missing) and same and (not cpy) and seen == d["expected_seen"] and int(w[3].split("=")[1]) == (1 if d["input"]["accept"] else 0)
                print("REPLAY %s %s" % (d["check"], "PASS" if ok else "FAIL"))
                return 0 if ok else 1
        print("REPLAY %s FAIL (no result)" % d["check"])
        return 1
    if d["kind"] == "program":
        got = parse_case_lines(res["out"])
        case = d["cases"][0]
        bad = 0
        for k, inp in enumerate(case["inputs"]):
            g = got.get(("g0", k))
            want_acc = 1 if inp["accept"] else 0
            want_val = inp["value"] if inp["accept"] else "0"
            if d.get("lite"):
                for tag in ("sb", "sv", "svs"):
                    a, v, m = g[tag].split(":") if g else ("EXC", "0", "")
                    if d["check"] == "C16" and g and tag in ("sb", "sv") and check_verbose(g, tag, a, v, m, inp, d["compiler"]):
                        bad += 1
                        break
                    if a == "EXC" or int(a) != want_acc or (d["check"] in ("C02", "C05") and want_acc and v != want_val) or (d["check"] in ("C09", "C10") and m != inp["messages_hex"]) or (d["check"] == "C10" and g.get("p" + tag) != inp.get("posdigest")) or (d["check"] == "C18" and ((want_acc and v != want_val) or m != inp["messages_hex"])):
                        bad += 1
                        break
                continue
            if g is not None and g["ce"].split(":")[0] != "-1" and "cev" in g and g["cev"] != g["ce"]:
                bad += 1
                continue
            if d["check"] == "C16":
                continue
            if g is None or g["ce"].split(":")[0] == "-1" or int(g["ce"].split(":")[0]) != want_acc or (want_acc and g["ce"].split(":")[1] != want_val):
                bad += 1
                continue
            for tag in ("cs", "sb", "sv", "svs", "sbc", "r_cs", "r_sb", "r_sv"):
                a, v, m = g[tag].split(":")
                if a == "EXC" or int(a) != want_acc or (want_acc and v != want_val) or m != inp["messages_hex"]:
                    bad += 1
                    break
        print("REPLAY %s %s" % (d["check"], "FAIL" if bad else "PASS"))
        return 1 if bad else 0
    m = d.get("meta")
    for ln in res["out"].splitlines():
        if m and ln.startswith("BAD " + m["ns"] + " "):
            w = ln.split()
            ce, threw = int(w[2].split("=")[1]), int(w[3].split("=")[1])
            ok = (ce == -1 and threw == 1) if m["expect_reject"] else (ce == 1 and threw == 0)
            print("REPLAY %s %s" % (d["check"], "PASS" if ok else "FAIL"))
            return 0 if ok else 1
    print("REPLAY %s FAIL (no result)" % d["check"])
    return 1

"""Regenerates MANIFEST.json from vlib/props.py + the texts below (run: python3 -m vlib.manifest_gen)."""
import json, os
from . import props

ROOT = os.path.dirname(os.path.dirname(os.path.abspath(__file__)))

TEXT = {
 "C01": ("exploration", "Property-based search over generated grammars, each decided on all token strings up to a length bound plus random derivations and mutants, against a clean-room canonical LR(1) reference cross-checked by Earley. Sampled quantifier over grammars; near-exhaustive per grammar for short inputs.",
         "grammar injection through the friend hook (the DSL front end is bypassed); reference LR(1)/Earley; rapidcheck-generated choice bytes",
         "rapidcheck PBT, differential vs reference LR(1)+Earley, bounded-exhaustive inputs; generated DSL programs (spelled char/string/regex/typed terms) vs the same reference", "5/C01"),
 "C02": ("exploration", "Generated grammars and accepted inputs; the returned value is a non-commutative hash of the derivation tree, and the functor call log must be the post-order of the reference tree. Swapped, duplicated, stale or missing arguments change the hash.",
         "same as C01; functors of the template parsers log every call", "rapidcheck PBT, reference-model tree evaluation + call-log invariant (lexeme slices incl. terms beyond 64 KiB and stacks beyond 1024 entries); hand-written default-functor parser vs independent evaluator; generated DSL programs", "5/C02"),
 "C04": ("exploration", "Generated term sets; the merged lexer automaton is compared with a reference labelled DFA over all byte strings (exact per term set) and the token stream seen by functors is compared with a reference longest-match tokeniser on sampled inputs under all whitespace option combinations.",
         "lexer injection through the friend hook; harness term classes; reference regex semantics", "rapidcheck PBT, labelled-automata equivalence + reference tokeniser, three-way bug-model scope", "5/C04"),
 "C05": ("exploration", "Generated ambiguous grammars with random precedence/associativity/explicit rule precedence; the value of the real parse must equal the value of the tree obtained by the documented resolution on the reference table.",
         "same as C01; R/R grammars excluded (README: undefined)", "rapidcheck PBT, differential vs reference resolution (term precedences taken from term objects built with the public constructors, rule precedences from rule[n]); generated DSL programs with >= / >>= after [n]", "5/C05"),
 "C06": ("exploration", "Coverage-guided fuzzing of whole parsers and of the regex matcher on arbitrary bytes through four buffer kinds with sanitizers, a bounds monitor inside the library's fixed vectors and a checked user iterator; the differential across buffer kinds and a linear-progress bound are checked inside the target.",
         "libFuzzer mutations reach the interesting inputs; termination only as absence of reproducible time-outs", "libFuzzer (coverage-guided, seven targets incl. the real cstring_buffer<N> with nested error recovery, one with a structure-aware decode reaching stack depths > 4096 and inputs > 64 KiB from 20-byte inputs and an independent evaluator as value oracle) + ASan/UBSan + checked-iterator buffer + differential across buffer kinds", "5/C06"),
 "C07": ("exploration", "Generated programs (public DSL only) compiled with both available compilers; per input a SFINAE probe observes whether the compile-time parse is a constant expression and its value, and six run-time parses (3 buffer kinds x parser built at compile time / at run time) must agree with it and with the reference. Sample sizes are bounded by compile time.",
         "generators and reference of C01/C05/C08; g++ 12.2 and clang++ 14.0.6 only", "generated-program differential (constexpr vs run time x buffers x compilers, verbose on/off at compile time) against the reference model; ~590-state grammar through three buffer kinds vs a python LR(1) reference", "5/C07"),
 "C08": ("exploration", "Generated grammars with error rules and inputs with injected errors; outcome, kept values and error messages must equal the README recovery algorithm run on the reference table.",
         "same as C01; recovery model written from README's five bullets", "rapidcheck PBT, reference recovery model; generated DSL program with a ~590-state grammar (error rules in 32 contexts) against a python LR(1) construction driven by README's recovery loop", "5/C08"),
 "C09": ("exploration", "Generated conflict-free grammars and inputs (also lexically wrong); exactly one message of the right kind, position and term/byte, nothing on success, failure iff not in the language.",
         "same as C01; messages compared on (kind, line, column, name/byte)", "rapidcheck PBT, reference LR(1)+Earley prefix viability; lexer-engine job for multi-character terms; generated DSL programs with named/typed terms", "5/C09"),
 "C10": ("exploration", "Source points delivered to functors and printed in messages are compared with an independent line/column model over inputs mixing all whitespace bytes and option combinations.",
         "same as C01; single-character terms in this engine (multi-line lexemes are covered by the lexer engine when registered)", "rapidcheck PBT, reference position model; lexer-engine job; generated DSL programs (multi-line string terms, owning term values, 64 KiB lexemes) with a digest over all source points read by functors", "5/C10"),
 "C11": ("exploration", "The diagnostic text is parsed and compared with the reference LR(1) automaton (states by item set, actions, conflicts, rule numbers), with the real table through the hook, and executed by a text-driven interpreter against the real parser.",
         "same as C01; documented text format", "rapidcheck PBT, diagnostic-text parser + reference automaton + text-driven table interpreter", "5/C11"),
 "C03": ("exploration", "Generated patterns in the documented syntax; for each, the automaton built by the real builder is compared with a reference DFA over all byte strings (exact per pattern), witnesses confirmed on the real matcher. A known construction defect (F5) is scoped by a behavioural model so that any other deviation is still reported.",
         "reference regex semantics; real pattern parser/builder driven at run time through public API", "rapidcheck PBT, automata equivalence vs reference DFA + derivative matcher, three-way bug-model scope; pumped members of 64 KiB+ through the real matcher", "5/C03"),
 "C12": ("exploration", "Four sub-checks with the cvector bounds monitor on: (a) predicted regex automaton size vs states used, (l) lexer automaton vs sum of term budgets, (b) custom table limits around the real state/situation counts (too small => loud rejection, sufficient => same behaviour), (c) fixed stacks of cstring_buffer<N> for N <= 20 vs the string_buffer run.",
         "builder capacity 1024 in the harness; bounds monitor hook", "rapidcheck PBT, invariant (used <= predicted) + bounds monitor + UBSan array bounds; six limit levels incl. per-state cap below state cap; deep/long sentence job; ~590-state DSL grammar with custom limits must construct", "5/C12"),
 "C17": ("exploration", "(a) category-mutated malformed patterns must be refused by both construction paths; scanning any string stays inside its NUL-terminated block (ASan). (b) generated programs whose grammar references an undeclared symbol: run-time construction must throw and the constexpr probe must report a non-constant expression, with g++ and clang++.",
         "reference classification VALID/MALFORMED/UNSPECIFIED", "rapidcheck PBT, mutation-based negative testing (category mutations, truncation) + ASan; generated programs with undeclared symbols (constexpr probe + run-time construction)", "5/C17"),
 "C18": ("exploration", "Generated grammars over custom terms driven by a scripted custom lexer with generated (index, length) behaviour; the lexer's call log, the functor log and the outcome are compared with a reference tokeniser + LR run.",
         "same as C01; scripted lexer table is generated per case", "rapidcheck PBT, scripted-lexer call-log invariant + reference LR over delivered terms (precedence-resolved grammars included); generated DSL programs over custom_term + hand-written lexer vs the generated-lexer reference; hand-written settings parser vs independent evaluator", "5/C18"),
 "C19": ("exploration", "The finite space of (functor, arity 1..9, position or (container,element) pair, argument category) is enumerated completely in every case, with random tagged contents; identity of forwarded objects and copy/move counters are the oracle.",
         "direct calls of the public functors (as the parser's reductors call them: rvalues) plus lvalue categories", "bounded-exhaustive enumeration of the position space driven by rapidcheck contents; an instantiation that stops compiling is a violation (control engine)", "5/C19"),
 "C13": ("exploration", "Generated grammars mixing '>=' and '>>=' functors; each input is parsed under four context categories and without context; identity, constness, value category, order and visibility of mutations are checked against the reference reduction order.",
         "same as C01; functors log the address and type of the context they receive", "rapidcheck PBT, reference reduction order + identity/constness invariants over call sites; generated DSL programs (>>= / >= mixes, skip-typed context parameter, copy/move-counting context, all context_parse overloads)", "5/C13"),
 "C14": ("exploration", "Generated grammars over instrumented value types (copyable and move-only builds); a global registry of live objects and per-value ids decide leaks, double destruction, duplication, reuse after move and copies, on success, failure and recovery paths. A library change that makes move-only nonterminal values stop compiling is reported as a violation (the copyable control build must still compile).",
         "same as C01; term payload copy inside term_value<T> is attributed to that class", "rapidcheck PBT, instrumented value type with live-object registry (history invariant); list parsers built with the library's emplace_back/push_back/_eN helpers over instrumented copyable and move-only elements", "5/C14"),
 "C15": ("exploration", "Generated call histories on one parser object, sequential and from 2..8 threads; results compared with isolated runs, byte image of the object compared after calls, and a ThreadSanitizer build as race oracle. Schedules are sampled, not enumerated.",
         "same as C01; OS scheduler; TSan happens-before race detection", "rapidcheck stateful histories (isolated-result oracle, histories reporting to one reused stream object) + byte-image invariant + ThreadSanitizer; const/non-const functor overloads counted; lexer-level and custom-lexer (stateful lexer object) histories", "5/C15"),
 "C16": ("exploration", "Every input is parsed under all verbosity/stream combinations; results must agree and the verbose trace is replayed against the real table and the functor log of the same run.",
         "same as C01", "rapidcheck PBT, metamorphic (options) + trace replay invariant; real-lexer job (recognised terms == reference tokenisation, nullable terms included)", "5/C16"),
}

def main():
    ids = [json.loads(l)["id"] for l in open(os.path.join(ROOT, "properties.jsonl"))]
    m = {
        "version": 1,
        "setup_cmd": "python3 run.py setup",
        "hooks": {
            "guard": "CTPG_VERIF",
            "enable": "engines are compiled from /repo's working tree with -DCTPG_VERIF (friend access) and, for the memory-safety/capacity engines, additionally -DCTPG_VERIF_BOUNDS (cvector bounds monitor); -I/repo/include",
            "baseline_off_cmd": "cmake --build /repo/_build && ctest --test-dir /repo/_build -j8 --timeout 900",
            "source_commits": ["6eb7c3c", "6a93b53"],
            "add_only": True,
        },
        "engines": [],
        "checks": [],
        "not_applicable": [],
        "notes": "fix: commits in /repo are listed in known_findings.json; DESIGN.md is the authoritative description.",
    }
    engines = {}
    for pid in ids:
        if pid in props.PROPS and pid in TEXT:
            cat, text, note, tech, ref = TEXT[pid]
            spec = props.PROPS[pid]
            eng = spec["jobs"][0]["engine"] if spec.get("jobs") else "compiled tier (vlib/compiled.py)"
            for j in spec.get("jobs", []):
                engines.setdefault(j["engine"], []).append(pid)
            m["checks"].append({
                "property_id": pid,
                "quick_cmd": "python3 run.py check %s --tier quick" % pid,
                "thorough_cmd": "python3 run.py check %s --tier thorough" % pid,
                "evidence_file": "evidence/%s.json" % pid,
                "replay_cmd_template": "python3 run.py replay {path} --prop %s" % pid,
                "engine": eng,
                "level_claimed": {"category": cat, "text": text, "design_ref": "DESIGN.md section " + ref},
                "level_note": note,
                "technique": tech,
            })
        else:
            m["not_applicable"].append({"property_id": pid, "reason": "check not registered yet in this revision (planned in DESIGN.md section 5; the technique applies)"})
    for e, ps in sorted(engines.items()):
        m["engines"].append({"name": e, "path": "harness/%s.cpp" % e, "serves_properties": sorted(set(ps)), "kind_free_text": "rapidcheck-driven C++ engine built with clang++ ASan+UBSan against /repo/include"})
    json.dump(m, open(os.path.join(ROOT, "MANIFEST.json"), "w"), indent=1)
    print("checks:", [c["property_id"] for c in m["checks"]])

if __name__ == "__main__":
    main()

"""Build cache for the engines: every check rebuilds what it needs from /repo's current working tree.
Key = sha256(ctpg.hpp + harness sources + flags); binaries live in /verif/build/<engine>-<key>/ (git-ignored)."""
import fcntl, glob, hashlib, os, shutil, subprocess, time

ROOT = os.path.dirname(os.path.dirname(os.path.abspath(__file__)))
HARNESS = os.path.join(ROOT, "harness")
BUILD = os.path.join(ROOT, "build")

SAN = ["-fsanitize=address,undefined", "-fno-sanitize-recover=undefined"]
BASE = ["-std=gnu++17", "-g", "-O1", "-DCTPG_VERIF", "-fno-omit-frame-pointer", "-fbracket-depth=1024"]

ENGINES = {
    # name: (source, compiler, flags, libs)
    "e_grammar": ("e_grammar.cpp", "clang++", BASE + SAN, ["-lrapidcheck", "-lpthread"]),
    "e_values": ("e_values.cpp", "clang++", BASE + SAN, ["-lrapidcheck", "-lpthread"]),
    "e_values_mo": ("e_values.cpp", "clang++", BASE + SAN + ["-DVALUES_MOVE_ONLY"], ["-lrapidcheck", "-lpthread"]),
    "e_lists": ("e_lists.cpp", "clang++", BASE + SAN, ["-lrapidcheck", "-lpthread"]),
    "e_lists_mo": ("e_lists.cpp", "clang++", BASE + SAN + ["-DVALUES_MOVE_ONLY"], ["-lrapidcheck", "-lpthread"]),
    # g++ keeps C++17's rule for `return <rvalue-reference parameter>;` (a copy), clang 14 moves; g++ cannot compile ctpg.hpp with -fsanitize=undefined
    "e_lists_gxx": ("e_lists.cpp", "g++", ["-std=gnu++17", "-g", "-O1", "-DCTPG_VERIF", "-fno-omit-frame-pointer", "-fsanitize=address"], ["-lrapidcheck", "-lpthread"]),
    "e_customlexer": ("e_customlexer.cpp", "clang++", BASE + SAN, ["-lrapidcheck", "-lpthread"]),
    "e_threads": ("e_threads.cpp", "clang++", BASE + SAN, ["-lrapidcheck", "-lpthread"]),
    "e_threads_tsan": ("e_threads.cpp", "clang++", BASE + ["-fsanitize=thread"], ["-lrapidcheck", "-lpthread"]),
    "e_caps": ("e_caps.cpp", "clang++", BASE + SAN + ["-DCTPG_VERIF_BOUNDS"], ["-lrapidcheck", "-lpthread"]),
    "e_bytes_fuzz": ("e_bytes_fuzz.cpp", "clang++", ["-std=gnu++17", "-g", "-O1", "-DCTPG_VERIF", "-DCTPG_VERIF_BOUNDS", "-fno-omit-frame-pointer", "-fbracket-depth=1024", "-fconstexpr-steps=100000000",
                     "-fsanitize=fuzzer,address,undefined", "-fno-sanitize-recover=undefined"], ["-lpthread"]),
    "e_helpers": ("e_helpers.cpp", "clang++", ["-std=gnu++17", "-O0", "-DCTPG_VERIF", "-fbracket-depth=1024"], ["-lrapidcheck", "-lpthread"]),
    "e_helpers_gxx": ("e_helpers.cpp", "g++", ["-std=gnu++17", "-O0", "-DCTPG_VERIF"], ["-lrapidcheck", "-lpthread"]),
    "e_lexer": ("e_lexer.cpp", "clang++", BASE + SAN + ["-DCTPG_VERIF_BOUNDS"], ["-lrapidcheck", "-lpthread"]),
    "e_regex": ("e_regex.cpp", "clang++", BASE + SAN + ["-DCTPG_VERIF_BOUNDS"], ["-lrapidcheck", "-lpthread"]),
}


def _key(engine, repo):
    src, cxx, flags, libs = ENGINES[engine]
    h = hashlib.sha256()
    h.update(open(os.path.join(repo, "include", "ctpg", "ctpg.hpp"), "rb").read())
    for p in sorted(glob.glob(os.path.join(HARNESS, "common", "*.hpp"))) + [os.path.join(HARNESS, src)]:
        h.update(p.encode())
        h.update(open(p, "rb").read())
    h.update(" ".join([cxx] + flags + libs).encode())
    return h.hexdigest()[:16]


def _prune(engine, keep):
    dirs = sorted(glob.glob(os.path.join(BUILD, engine + "-*")), key=lambda d: os.path.getmtime(d), reverse=True)
    for d in dirs[keep:]:
        shutil.rmtree(d, ignore_errors=True)


def ensure(engine, repo="/repo"):
    """returns (ok, binary path, log)"""
    src, cxx, flags, libs = ENGINES[engine]
    os.makedirs(BUILD, exist_ok=True)
    key = _key(engine, repo)
    d = os.path.join(BUILD, "%s-%s" % (engine, key))
    binp = os.path.join(d, engine)
    lock = open(os.path.join(BUILD, engine + ".lock"), "w")
    fcntl.flock(lock, fcntl.LOCK_EX)
    try:
        if os.path.exists(binp):
            os.utime(d, None)
            return True, binp, ""
        os.makedirs(d, exist_ok=True)
        tmp = binp + ".tmp"
        cmd = [cxx] + flags + ["-I" + os.path.join(repo, "include"), "-I" + HARNESS, os.path.join(HARNESS, src), "-o", tmp] + libs
        t = time.time()
        r = subprocess.run(cmd, stdout=subprocess.PIPE, stderr=subprocess.STDOUT)
        log = r.stdout.decode("utf-8", "replace")
        if r.returncode != 0:
            shutil.rmtree(d, ignore_errors=True)
            return False, "", "$ %s\n%s" % (" ".join(cmd), log)
        os.rename(tmp, binp)
        with open(os.path.join(d, "build.log"), "w") as f:
            f.write("$ %s\n%s\nbuilt in %.1fs\n" % (" ".join(cmd), log, time.time() - t))
        _prune(engine, 3)
        return True, binp, log
    finally:
        fcntl.flock(lock, fcntl.LOCK_UN)
        lock.close()


def ensure_emitter(engine, repo="/repo"):
    """The emit modes (grammars / patterns + expected results for the generated-program jobs) do not exercise ctpg at all: they run generators
    and reference models only, but live in the engine binaries. When an engine does not build against the working tree (a change to private
    helpers that the friend hook calls), the emitter is built against the header of the last commit instead, so that the generated programs -
    which use only the public DSL and ARE compiled against the working tree - can still be produced and judged."""
    ok, path, log = ensure(engine, repo)
    if ok:
        return ok, path, log
    try:
        blob = subprocess.run(["git", "-C", repo, "show", "HEAD:include/ctpg/ctpg.hpp"], stdout=subprocess.PIPE, stderr=subprocess.DEVNULL).stdout
        cur = open(os.path.join(repo, "include", "ctpg", "ctpg.hpp"), "rb").read()
    except Exception:
        return False, "", log
    if not blob or blob == cur:
        return False, "", log
    pd = os.path.join(BUILD, "pristine-" + hashlib.sha256(blob).hexdigest()[:16])
    os.makedirs(os.path.join(pd, "include", "ctpg"), exist_ok=True)
    hp = os.path.join(pd, "include", "ctpg", "ctpg.hpp")
    if not os.path.exists(hp):
        open(hp, "wb").write(blob)
    ok2, path2, log2 = ensure(engine, pd)
    return ok2, path2, (log if not ok2 else "")

#!/usr/bin/env python3
"""Sensitivity helper: apply a textual mutation to a scratch copy of the header (outside /repo and /verif), run checks against it, delete the copy.
usage: tools/mutant.py <name> <check ids, comma separated> <old text> <new text> [--tier quick] [--count N]
       tools/mutant.py --revert <commit> <check ids>          (reverts one commit of /repo in the scratch copy)
Evidence files are restored afterwards so that committed evidence always comes from the real tree."""
import os, shutil, subprocess, sys, tempfile, time

ROOT = os.path.dirname(os.path.dirname(os.path.abspath(__file__)))

def main():
    a = sys.argv[1:]
    tier = "quick"
    if "--tier" in a:
        i = a.index("--tier"); tier = a[i + 1]; del a[i:i + 2]
    scratch = tempfile.mkdtemp(prefix="ctpg_mut_")
    try:
        os.makedirs(os.path.join(scratch, "include", "ctpg"))
        dst = os.path.join(scratch, "include", "ctpg", "ctpg.hpp")
        if a[0] == "--revert":
            commit, checks = a[1], a[2]
            name = "revert-" + commit
            src = subprocess.run(["git", "-C", "/repo", "show", "HEAD:include/ctpg/ctpg.hpp"], stdout=subprocess.PIPE, check=True).stdout
            open(dst, "wb").write(src)
            subprocess.run(["git", "init", "-q", scratch], check=True)
            diff = subprocess.run(["git", "-C", "/repo", "show", commit, "--", "include/ctpg/ctpg.hpp"], stdout=subprocess.PIPE, check=True).stdout
            r = subprocess.run(["git", "-C", scratch, "apply", "-R", "--whitespace=nowarn", "-"], input=diff)
            if r.returncode != 0:
                print("MUTANT %s: revert does not apply" % name); return 3
        else:
            name, checks, old, new = a[0], a[1], a[2], a[3]
            s = open("/repo/include/ctpg/ctpg.hpp").read()
            if s.count(old) < 1:
                print("MUTANT %s: pattern not found" % name); return 3
            s = s.replace(old, new, 1)
            open(dst, "w").write(s)
        ev_backup = tempfile.mkdtemp(prefix="ctpg_ev_")
        shutil.copytree(os.path.join(ROOT, "evidence"), os.path.join(ev_backup, "evidence"))
        env = dict(os.environ); env["CTPG_REPO"] = scratch
        res = []
        for c in checks.split(","):
            t = time.time()
            r = subprocess.run(["python3", os.path.join(ROOT, "run.py"), "check", c, "--tier", tier], stdout=subprocess.PIPE, stderr=subprocess.STDOUT, env=env, cwd=ROOT)
            out = r.stdout.decode("utf-8", "replace")
            first = [l for l in out.splitlines() if l.startswith("VIOLATION") or l.startswith("  what") or "HARNESS" in l][:3]
            res.append((c, r.returncode, time.time() - t, first))
        shutil.rmtree(os.path.join(ROOT, "evidence")); shutil.copytree(os.path.join(ev_backup, "evidence"), os.path.join(ROOT, "evidence")); shutil.rmtree(ev_backup)
        for c, rc, dt, first in res:
            print("MUTANT %-28s check=%s exit=%d (%s) %.0fs %s" % (name, c, rc, "CAUGHT" if rc == 1 else "missed" if rc == 0 else "HARNESS", dt, " | ".join(x.strip()[:160] for x in first)))
        return 0
    finally:
        shutil.rmtree(scratch, ignore_errors=True)

if __name__ == "__main__":
    sys.exit(main())

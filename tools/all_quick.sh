#!/bin/bash
# runs every registered quick check once; usage: tools/all_quick.sh [seed]
cd /verif
[ -n "$1" ] && export VERIF_SEED=$1
for P in $(python3 -c "
import json;print(' '.join(c['property_id'] for c in json.load(open('MANIFEST.json'))['checks']))"); do
  out=$(python3 run.py check $P --tier quick 2>&1); rc=$?
  echo "$P exit=$rc $(echo "$out" | grep -c '^KNOWN-FINDING') known | $(echo "$out" | tail -1 | cut -c1-160)"
  [ $rc -ne 0 ] && echo "$out" | grep -v "^KNOWN" | head -8 | cut -c1-300
done

#!/usr/bin/env python3
"""Intake of a seeded breaking change produced by an independent sub-agent in /tmp/wt_<ID>.
  tools/seeded.py intake <ID> [name]      copy patch/demo/meta to /verif/seeded/<name>, confirm (tests pass with it, demo fails with / passes without)
  tools/seeded.py run <name> [checks]     apply the patch to /repo, run the checks (default: the property's own check), undo, record in meta.json
"""
import json, os, shutil, subprocess, sys, tempfile, time

ROOT = os.path.dirname(os.path.dirname(os.path.abspath(__file__)))

def sh(cmd, **kw):
    r = subprocess.run(cmd, stdout=subprocess.PIPE, stderr=subprocess.STDOUT, **kw)
    return r.returncode, r.stdout.decode("utf-8", "replace")

def intake(pid, name=None, src=None):
    """src: directory holding patch.diff / demo.cpp / meta.json (default /tmp/wt_<ID>/seeded). An entry that has already been taken in
    and confirmed is never overwritten (a later round of sub-agents reuses the same worktrees)."""
    name = name or pid
    src = src or "/tmp/wt_%s/seeded" % pid
    dst = os.path.join(ROOT, "seeded", name)
    if os.path.exists(os.path.join(dst, "meta.json")) and "confirmed_by_main_session" in open(os.path.join(dst, "meta.json")).read():
        print("seeded/%s is already taken in and confirmed: not touched" % name)
        return
    os.makedirs(dst, exist_ok=True)
    for f in ("patch.diff", "demo.cpp", "meta.json"):
        shutil.copyfile(os.path.join(src, f), os.path.join(dst, f))
    # independent confirmation in a fresh scratch copy
    scratch = tempfile.mkdtemp(prefix="seedchk_")
    try:
        sh(["git", "-C", "/repo", "worktree", "add", "--detach", scratch + "/wt", "HEAD", "-q"])
        w = scratch + "/wt"
        rc, out = sh(["git", "-C", w, "apply", "--check", os.path.join(dst, "patch.diff")])
        res = {"applies": rc == 0}
        if rc != 0:
            print("patch does not apply:", out); res["error"] = out[-500:]
        else:
            flags = ["-std=c++17", "-pthread"]
            meta = json.load(open(os.path.join(dst, "meta.json")))
            mtxt = json.dumps(meta)
            if "fsanitize=thread" in mtxt: flags.append("-fsanitize=thread")
            elif "fsanitize=address" in mtxt: flags += ["-fsanitize=address"]   # g++ cannot compile ctpg.hpp with -fsanitize=undefined
            def demo(tag):
                rc, out = sh(["g++"] + flags + ["-I", w + "/include", os.path.join(dst, "demo.cpp"), "-o", scratch + "/demo_" + tag], timeout=900)
                if rc != 0: return ("compile-failed", out[-300:])
                try:
                    rc, out = sh([scratch + "/demo_" + tag], timeout=120)
                except subprocess.TimeoutExpired:
                    return ("timeout", "")
                return (rc, out[-200:])
            res["demo_without"] = demo("clean")
            sh(["git", "-C", w, "apply", os.path.join(dst, "patch.diff")])
            res["demo_with"] = demo("mut")
            rc, out = sh(["cmake", "-S", w, "-B", w + "/_b", "-G", "Ninja", "-DCMAKE_BUILD_TYPE=Release"])
            rc, out = sh(["cmake", "--build", w + "/_b"], timeout=1800)
            res["tests_build"] = rc == 0
            rc, out = sh(["ctest", "--test-dir", w + "/_b", "-j8", "--timeout", "900"])
            res["tests"] = [l for l in out.splitlines() if "tests passed" in l or "tests failed" in l][:1]
        meta = json.load(open(os.path.join(dst, "meta.json")))
        meta["confirmed_by_main_session"] = res
        meta["breaks_property"] = pid
        json.dump(meta, open(os.path.join(dst, "meta.json"), "w"), indent=1)
        print(json.dumps(res, indent=1)[:1500])
    finally:
        sh(["git", "-C", "/repo", "worktree", "remove", "--force", scratch + "/wt"])
        shutil.rmtree(scratch, ignore_errors=True)

def run(name, checks=None):
    dst = os.path.join(ROOT, "seeded", name)
    meta = json.load(open(os.path.join(dst, "meta.json")))
    checks = checks.split(",") if checks else [meta["breaks_property"]]
    rc, out = sh(["git", "-C", "/repo", "status", "--porcelain", "--untracked-files=no"])
    if out.strip():
        print("refusing: /repo has local changes"); return 2
    evb = tempfile.mkdtemp(prefix="evb_")
    shutil.copytree(os.path.join(ROOT, "evidence"), evb + "/evidence")
    results = meta.get("check_results", {})
    try:
        rc, out = sh(["git", "-C", "/repo", "apply", os.path.join(dst, "patch.diff")])
        if rc != 0:
            print("apply failed", out); return 2
        for c in checks:
            t = time.time()
            rc, out = sh(["python3", os.path.join(ROOT, "run.py"), "check", c, "--tier", "quick"], cwd=ROOT)
            lines = [l.strip()[:220] for l in out.splitlines() if l.startswith("VIOLATION") or l.startswith("  what") or "HARNESS" in l][:4]
            results[c] = {"exit": rc, "verdict": "CAUGHT" if rc == 1 else "missed" if rc == 0 else "harness-error", "seconds": round(time.time() - t), "lines": lines}
            print("SEEDED %-10s check=%s exit=%d %s %ds %s" % (name, c, rc, results[c]["verdict"], time.time() - t, " | ".join(lines[:2])))
    finally:
        sh(["git", "-C", "/repo", "checkout", "--", "."])
        shutil.rmtree(os.path.join(ROOT, "evidence")); shutil.copytree(evb + "/evidence", os.path.join(ROOT, "evidence")); shutil.rmtree(evb)
    meta["check_results"] = results
    json.dump(meta, open(os.path.join(dst, "meta.json"), "w"), indent=1)
    return 0

if __name__ == "__main__":
    if sys.argv[1] == "intake": intake(*sys.argv[2:])
    elif sys.argv[1] == "run": sys.exit(run(*sys.argv[2:]))

#!/bin/bash
# usage: tools/seeded_batch.sh ID[:name[:srcdir]]...   (intake + run the property's own check for each; sequential because /repo is patched in place)
cd /verif
for spec in "$@"; do
  IFS=: read id name src <<< "$spec"
  name=${name:-$id}
  echo "=== $name $(date +%H:%M:%S)" >> work/seeded_log.txt
  tools/seeded.py intake $id $name $src >> work/seeded_log.txt 2>&1
  tools/seeded.py run $name >> work/seeded_log.txt 2>&1
done
echo "BATCH DONE $*" >> work/seeded_log.txt

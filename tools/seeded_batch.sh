#!/bin/bash
# usage: tools/seeded_batch.sh ID[:name]...   (intake + run the property's own check for each; sequential because /repo is patched in place)
cd /verif
for spec in "$@"; do
  id=${spec%%:*}; name=${spec##*:}
  echo "=== $name $(date +%H:%M:%S)" >> work/seeded_log.txt
  tools/seeded.py intake $id $name >> work/seeded_log.txt 2>&1
  tools/seeded.py run $name >> work/seeded_log.txt 2>&1
done
echo "BATCH DONE $*" >> work/seeded_log.txt

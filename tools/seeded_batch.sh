#!/bin/bash
# usage: tools/seeded_batch.sh ID...   (intake + run the property's own check for each; sequential because /repo is patched in place)
cd /verif
for id in "$@"; do
  echo "=== $id $(date +%H:%M:%S)" >> work/seeded_log.txt
  tools/seeded.py intake $id >> work/seeded_log.txt 2>&1
  tools/seeded.py run $id >> work/seeded_log.txt 2>&1
done
echo "BATCH DONE $*" >> work/seeded_log.txt

#!/usr/bin/env python3
"""Orchestrator for the ctpg property checks (DESIGN.md section 2).

  python3 run.py check <ID> --tier quick|thorough     what MANIFEST.json registers
  python3 run.py replay <file>                        re-run one saved case (json or raw choice bytes)
  python3 run.py setup                                build every engine for the current /repo tree
  python3 run.py selftest                             reference-vs-reference checks

Exit codes: 0 property held on everything explored (KNOWN-FINDING lines possible), 1 VIOLATION, 2 harness/build failure.
"""
import argparse, array, hashlib, json, os, re, shutil, subprocess, sys, time, zlib
from concurrent.futures import ThreadPoolExecutor

ROOT = os.path.dirname(os.path.abspath(__file__))
sys.path.insert(0, ROOT)
from vlib import props as PROPS            # noqa: E402
from vlib import build as BUILD            # noqa: E402

REPO = os.environ.get("CTPG_REPO", "/repo")
NCPU = min(16, os.cpu_count() or 4)


def splitmix(x):
    x = (x + 0x9E3779B97F4A7C15) & 0xFFFFFFFFFFFFFFFF
    z = x
    z = ((z ^ (z >> 30)) * 0xBF58476D1CE4E5B9) & 0xFFFFFFFFFFFFFFFF
    z = ((z ^ (z >> 27)) * 0x94D049BB133111EB) & 0xFFFFFFFFFFFFFFFF
    return z ^ (z >> 31)


def derive_seed(base, pid, job, worker):
    s = splitmix(base ^ zlib.crc32(pid.encode()))
    s = splitmix(s ^ (job * 1000003 + worker))
    return (s % 0x7FFFFFFFFFFFFFFE) + 1


def load_known():
    p = os.path.join(ROOT, "known_findings.json")
    if not os.path.exists(p):
        return {"findings": []}
    return json.load(open(p))


def run_cmd(cmd, timeout=None, env=None):
    try:
        r = subprocess.run(cmd, stdout=subprocess.PIPE, stderr=subprocess.STDOUT, timeout=timeout, env=env)
        return r.returncode, r.stdout.decode("utf-8", "replace")
    except subprocess.TimeoutExpired as e:
        return -9, (e.stdout or b"").decode("utf-8", "replace") + "\n[timeout]"


def fuzz_meta(path):
    mp = path + ".meta.json"
    if os.path.exists(mp):
        try:
            m = json.load(open(mp))
            if m.get("fuzz_target"):
                return m
        except Exception:
            pass
    return None


def replay_fuzz(binpath, target, path, timeout=120, extra=None):
    env = dict(os.environ)
    env["FUZZ_TARGET"] = target
    env.pop("FUZZ_STATS", None)
    env.setdefault("ASAN_OPTIONS", "detect_leaks=1:abort_on_error=0:malloc_context_size=8")
    cmd = [binpath] + (extra or []) + [path]
    return run_cmd(cmd, timeout=timeout, env=env)


def replay_case(binpath, pid, path, known_ids, timeout=600):
    fm = fuzz_meta(path)
    if fm:
        rc, out = replay_fuzz(binpath, fm["fuzz_target"], path)
        return (0 if rc == 0 else 1), out
    mode = "replay-bytes" if path.endswith(".bin") else "replay"
    cmd = [binpath, "--prop", pid, "--mode", mode, "--case", path]
    if known_ids:
        cmd += ["--known", ",".join(known_ids)]
    env = dict(os.environ)
    env.setdefault("ASAN_OPTIONS", "detect_leaks=0:abort_on_error=0:allocator_may_return_null=1:quarantine_size_mb=64:malloc_context_size=5")
    env.setdefault("TSAN_OPTIONS", "halt_on_error=1")
    rc, out = run_cmd(cmd, timeout=timeout, env=env)
    return rc, out


def cmd_check(args):
    pid = args.id
    tier = args.tier or os.environ.get("VERIF_TIER", "quick")
    if tier not in ("quick", "thorough"):
        tier = "quick"
    seed = int(os.environ.get("VERIF_SEED", "20261003"))
    if pid not in PROPS.PROPS:
        print("unknown property", pid)
        return 2
    spec = PROPS.PROPS[pid]
    t0 = time.time()
    work = os.path.join(ROOT, "work", pid)
    shutil.rmtree(work, ignore_errors=True)
    os.makedirs(work, exist_ok=True)
    viol_dir = os.path.join(ROOT, "work", "violations")
    os.makedirs(viol_dir, exist_ok=True)


    # ---- build ----------------------------------------------------------------------------------
    engines = []
    for j in spec["jobs"]:
        if j["engine"] not in engines:
            engines.append(j["engine"])
    bins = {}
    build_violations = []
    harness_build_failed = []
    for e in engines:
        ok, path, log = BUILD.ensure(e, REPO)
        if not ok:
            # an engine whose only difference from an already built control engine is the instantiation the property is about
            # (e.g. move-only value types): "does not compile while the control compiles" is the property failing, not the harness
            ctl = spec.get("build_failure_is_violation", {}).get(e)
            if ctl and ctl not in bins and ctl not in engines:
                okc, pathc, _ = BUILD.ensure(ctl, REPO)      # the control engine is not one of this property's own engines: build it for the comparison
                if okc:
                    bins[ctl] = pathc
            if ctl and ctl in bins:
                os.makedirs(viol_dir, exist_ok=True)
                lp = os.path.join(viol_dir, "%s_build_%s.log" % (pid, e))
                open(lp, "w").write(log)
                build_violations.append((e, lp, [l for l in log.splitlines() if "error:" in l][:1]))
                continue
            if spec.get("compiled"):
                # this property also has a job of generated programs that use only the public DSL: it does not need this engine (its emitter is
                # built against the last commit's header when necessary). Run it; without a violation the run still ends as a harness failure.
                harness_build_failed.append((e, log))
                continue
            print("HARNESS-BUILD-FAILED engine=%s" % e)
            print(log[-6000:])
            return 2
        bins[e] = path

    known = load_known()
    known_for = [f for f in known.get("findings", []) if pid in f.get("properties", []) and f.get("status") == "known"]
    known_ids = [f["id"] for f in known_for]
    violations = []          # (what, replay path)
    known_lines = []
    notes = []

    def confirm_and_record(engine, path, what, eprop=None):
        """replay 3x in fresh processes; record a violation only if it reproduces each time
        (race reports of the ThreadSanitizer build depend on the schedule: there up to 4 replays are made and 2 reproductions suffice;
        a replay that has to be killed after its time ceiling counts as a reproduction of "the engine does not come back")"""
        eprop = eprop or pid
        okc = 0
        last = ""
        tsan = engine.endswith("_tsan")
        tries, need = (4, 2) if tsan else (3, 3)
        for _ in range(tries):
            rc, out = replay_case(bins[engine], eprop, path, known_ids, timeout=120 if tsan else 180)
            if tsan and okc >= need:
                break
            last = out
            if rc == 1 or rc < 0 or rc > 5 or (rc == 5 and tsan) or "ERROR: AddressSanitizer" in out or "runtime error:" in out or "ThreadSanitizer:" in out:
                okc += 1
        if okc >= need:
            h = hashlib.sha1(open(path, "rb").read()).hexdigest()[:12]
            dst = os.path.join(viol_dir, "%s_%s%s" % (pid, h, os.path.splitext(path)[1]))
            if path.endswith(".json"):
                try:
                    dj = json.load(open(path))
                    dj["engine"] = engine
                    dj["prop"] = eprop
                    dj["check"] = pid
                    json.dump(dj, open(dst, "w"))
                except Exception:
                    shutil.copyfile(path, dst)
            else:
                shutil.copyfile(path, dst)
                json.dump({"engine": engine, "prop": eprop, "check": pid}, open(dst + ".meta.json", "w"))
            violations.append((what, dst, last[-1500:]))
        else:
            orig = path[:-5] + "_orig.json" if path.endswith(".json") and not path.endswith("_orig.json") else None
            if orig and os.path.exists(orig):
                # the shrunk case does not fail in a fresh process (shrinking runs inside the process that found the failure: state leaked by the library from
                # one parse into the next can mislead it); the case as it was found is the reproducible unit then
                notes.append("shrunk case %s did not reproduce in a fresh process (%d/%d); falling back to the case as found" % (os.path.basename(path), okc, tries))
                confirm_and_record(engine, orig, what, eprop)
            else:
                notes.append("FLAKY-NOT-REPORTED %s (%d/%d reproductions)" % (path, okc, tries))

    # ---- replay tier: regressions (must pass) and known-finding witnesses -------------------------
    replayed = 0
    cdir = os.path.join(ROOT, "corpus", pid)
    default_engine = spec["jobs"][0]["engine"] if spec["jobs"] else None
    if os.path.isdir(cdir):
        for fn in sorted(os.listdir(cdir)):
            if fn.endswith(".meta.json") or not (fn.endswith(".json") or fn.endswith(".bin")):
                continue
            path = os.path.join(cdir, fn)
            eng = default_engine
            eprop = pid
            try:
                if fn.endswith(".json"):
                    dj = json.load(open(path))
                    eng = dj.get("engine", default_engine)
                    eprop = dj.get("prop", pid)
                elif os.path.exists(path + ".meta.json"):
                    dj = json.load(open(path + ".meta.json"))
                    eng = dj.get("engine", default_engine)
                    eprop = dj.get("prop", pid)
            except Exception:
                pass
            if eng in [x[0] for x in harness_build_failed]:
                continue
            if eng not in bins:
                ok, bp, log = BUILD.ensure(eng, REPO)
                if not ok:
                    print("HARNESS-BUILD-FAILED engine=%s" % eng)
                    return 2
                bins[eng] = bp
            rc, out = replay_case(bins[eng], eprop, path, known_ids)
            replayed += 1
            if rc == 0 or rc == 3 or rc == 4:
                continue
            confirm_and_record(eng, path, "regression case fails: " + (out.strip().splitlines()[0] if out.strip() else ""), eprop)
    for f in known_for:
        for w in f.get("witnesses", []):
            if "for" in w and pid not in w["for"]:
                continue
            path = os.path.join(ROOT, w["file"])
            eng = w.get("engine", default_engine)
            if eng == "compiled":
                from vlib import compiled as COMPILED
                import io, contextlib
                buf = io.StringIO()
                with contextlib.redirect_stdout(buf):
                    rcw = COMPILED.replay(path)
                replayed += 1
                if rcw != 0:
                    known_lines.append("KNOWN-FINDING: property=%s %s [%s] %s" % (pid, f["id"], w.get("name", os.path.basename(path)), w.get("what", f.get("title", ""))))
                else:
                    notes.append("known finding %s witness %s no longer fails on this tree" % (f["id"], w.get("name", path)))
                continue
            if eng in [x[0] for x in harness_build_failed]:
                continue
            if eng not in bins:
                ok, bp, log = BUILD.ensure(eng, REPO)
                if not ok:
                    print("HARNESS-BUILD-FAILED engine=%s" % eng)
                    return 2
                bins[eng] = bp
            # replay without the known-scope so that the witness shows its raw verdict
            rc, out = replay_case(bins[eng], w.get("prop", pid), path, [])
            replayed += 1
            if rc != 0 and rc != 3:
                known_lines.append("KNOWN-FINDING: property=%s %s [%s] %s" % (pid, f["id"], w.get("name", os.path.basename(path)), w.get("what", f.get("title", ""))))
            else:
                notes.append("known finding %s witness %s no longer fails on this tree" % (f["id"], w.get("name", path)))

    # ---- search tier --------------------------------------------------------------------------------
    jobs = []
    fuzz_jobs = []
    for ji, j in enumerate(spec["jobs"]):
        if j["engine"] not in bins:
            continue
        cfg = j[tier]
        if j.get("kind") == "libfuzzer":
            for w in range(cfg.get("workers", 2)):
                fuzz_jobs.append((j, ji, w, cfg))
            continue
        nw = cfg.get("workers", NCPU)
        for w in range(nw):
            out = os.path.join(work, "sum_j%d_w%d.json" % (ji, w))
            cmd = [bins[j["engine"]], "--prop", j.get("prop", pid), "--mode", "search", "--seed", str(derive_seed(seed, pid, ji, w)),
                   "--cases", str(cfg["cases"]), "--size", str(cfg["size"]), "--worker", str(ji * 100 + w), "--out", out, "--casedir", work]
            if known_ids:
                cmd += ["--known", ",".join(known_ids)]
            cmd += j.get("extra", [])
            jobs.append((j, ji, w, cmd, out, cfg.get("timeout", 3000)))

    def run_job(job):
        j, ji, w, cmd, out, to = job
        env = dict(os.environ)
        # malloc_context_size: rapidcheck's deep and ever-changing call stacks make ASan's stack depot grow without bound (workers of the
        # thorough tier reached 6 GB and were OOM-killed); 5 frames per allocation keep it flat, the faulting stack itself is still printed in full
        env.setdefault("ASAN_OPTIONS", "detect_leaks=0:abort_on_error=0:allocator_may_return_null=1:quarantine_size_mb=64:malloc_context_size=5")
        env.setdefault("UBSAN_OPTIONS", "print_stacktrace=1")
        env.setdefault("TSAN_OPTIONS", "halt_on_error=1:second_deadlock_stack=1")
        t = time.time()
        rc, log = run_cmd(cmd, timeout=to, env=env)
        return job, rc, log, time.time() - t

    def run_fuzz_job(fj):
        j, ji, w, cfg = fj
        tgt = j["target"]
        d = os.path.join(work, "fz_%s_w%d" % (tgt, w))
        cdir = os.path.join(d, "corpus")
        os.makedirs(cdir, exist_ok=True)
        seeds = os.path.join(ROOT, "corpus", pid, "seeds", tgt)
        if os.path.isdir(seeds):
            for fn in os.listdir(seeds):
                shutil.copyfile(os.path.join(seeds, fn), os.path.join(cdir, fn))
        env = dict(os.environ)
        env["FUZZ_TARGET"] = tgt
        env["FUZZ_STATS"] = os.path.join(d, "stats.json")
        env.setdefault("ASAN_OPTIONS", "detect_leaks=1:abort_on_error=0:malloc_context_size=8")
        fseed = derive_seed(seed, pid, ji, w) % 0x7FFFFFFF or 1
        cmd = [bins[j["engine"]], "-seed=%d" % fseed, "-runs=%d" % cfg["runs"], "-max_len=%d" % cfg.get("max_len", 256), "-timeout=%d" % cfg.get("timeout", 10),
               "-rss_limit_mb=3000", "-artifact_prefix=" + d + "/", "-print_final_stats=0", cdir]
        dic = os.path.join(ROOT, "corpus", pid, "dict", tgt + ".dict")
        if os.path.exists(dic):
            cmd.insert(1, "-dict=" + dic)
        t = time.time()
        rc, log = run_cmd(cmd, timeout=cfg.get("wall", 1500), env=env)
        return fj, rc, log, d, time.time() - t

    results = []
    fuzz_results = []
    with ThreadPoolExecutor(max_workers=NCPU) as ex:
        futs = [ex.submit(run_job, jb) for jb in jobs]
        ffuts = [ex.submit(run_fuzz_job, fj) for fj in fuzz_jobs]
        for f in futs:
            results.append(f.result())
        for f in ffuts:
            fuzz_results.append(f.result())

    aborted_seen = {}
    merged = {"evaluations": 0, "sub_evaluations": 0, "labels": {}, "counters": {}, "discards": {}, "excluded_known": {}, "samples": []}
    hashes = set()
    inconclusive = []
    for (job, rc, log, wall) in results:
        j, ji, w, cmd, out, to = job
        summ = None
        if os.path.exists(out):
            try:
                summ = json.load(open(out))
            except Exception:
                summ = None
        if summ is None:
            # crashed (sanitizer abort) or timed out
            cur = os.path.join(work, "cur_%s_w%d.bin" % (j.get("prop", pid), ji * 100 + w))
            if rc == -9:
                inconclusive.append("worker j%d w%d hit its wall-clock ceiling (inconclusive, not a violation)" % (ji, w))
                continue
            if rc == 5 and "WATCHDOG" in log:
                inconclusive.append("worker j%d w%d: a case exceeded the per-case time ceiling (inconclusive, not a violation)" % (ji, w))
                continue
            if os.path.exists(cur):
                keep = os.path.join(work, "crash_j%d_w%d.bin" % (ji, w))
                shutil.copyfile(cur, keep)
                head = [l for l in log.splitlines() if "ERROR" in l or "runtime error" in l or "SUMMARY" in l or "WARNING: ThreadSanitizer" in l or l.startswith("STALL:")]
                what_abort = "engine aborted: " + (head[0][:300] if head else "exit %d" % rc)
                # every worker of a job usually dies of the same cause: confirm (replay 3x, each possibly a 60-120 s stall) the first two, count the rest
                sig = (j["engine"], re.sub(r"0x[0-9a-fA-F]+|\d+", "#", what_abort)[:90])
                aborted_seen[sig] = aborted_seen.get(sig, 0) + 1
                if aborted_seen[sig] > 2:
                    notes.append("worker j%d w%d aborted the same way as an already confirmed case (%s): not replayed again" % (ji, w, what_abort[:120]))
                    continue
                confirm_and_record(j["engine"], keep, what_abort, j.get("prop", pid))
            else:
                print("HARNESS-ERROR worker produced no summary and no current case; rc=%d" % rc)
                print(log[-3000:])
                return 2
            continue
        merged["evaluations"] += summ.get("evaluations", 0)
        merged["sub_evaluations"] += summ.get("sub_evaluations", 0)
        for k in ("labels", "counters", "discards", "excluded_known"):
            for kk, vv in summ.get(k, {}).items():
                merged[k][kk] = merged[k].get(kk, 0) + vv
        if len(merged["samples"]) < 6:
            merged["samples"].extend(summ.get("samples", [])[:2])
        hp = out + ".hashes"
        if os.path.exists(hp):
            a = array.array("Q")
            with open(hp, "rb") as f:
                a.frombytes(f.read())
            hashes.update(a)
        for v in summ.get("violations", []):
            confirm_and_record(j["engine"], v["case"], v["what"], j.get("prop", pid))
        if summ.get("error"):
            print("HARNESS-ERROR", summ["error"])
            return 2

    # ---- libFuzzer campaigns -----------------------------------------------------------------------
    for (fj, rc, log, d, wall_f) in fuzz_results:
        j, ji, w, cfg = fj
        tgt = j["target"]
        sp = os.path.join(d, "stats.json")
        if os.path.exists(sp):
            try:
                stt = json.load(open(sp))
                merged["evaluations"] += stt.get("evaluations", 0)
                for kk, vv in stt.get("labels", {}).items():
                    merged["labels"]["%s:%s" % (tgt, kk)] = merged["labels"].get("%s:%s" % (tgt, kk), 0) + vv
                if len(merged["samples"]) < 8:
                    for smp in stt.get("samples", [])[:1]:
                        smp["fuzz_target"] = tgt
                        merged["samples"].append(smp)
                hp = sp + ".hashes"
                if os.path.exists(hp):
                    a = array.array("Q")
                    with open(hp, "rb") as f:
                        a.frombytes(f.read())
                    hashes.update((h ^ zlib.crc32(tgt.encode())) for h in a)
            except Exception:
                pass
        if rc == -9:
            inconclusive.append("libFuzzer campaign %s w%d hit its wall-clock ceiling (inconclusive)" % (tgt, w))
        arts = sorted(fn for fn in os.listdir(d) if fn.startswith(("crash-", "leak-", "timeout-")))
        if rc != 0 and rc != -9 and not arts:
            head = [l for l in log.splitlines() if "ERROR" in l or "SUMMARY" in l][:2]
            if "out-of-memory" in log or "oom-" in " ".join(os.listdir(d)):
                inconclusive.append("libFuzzer campaign %s w%d stopped on an out-of-memory unit (load noise, not a violation)" % (tgt, w))
            else:
                print("HARNESS-ERROR libFuzzer campaign %s ended with exit %d and no artifact: %s" % (tgt, rc, " | ".join(h[:200] for h in head)))
                print(log[-2000:])
                return 2
        for fn in arts:
            ap = os.path.join(d, fn)
            if fn.startswith("timeout-"):
                hung = 0
                for _ in range(3):
                    r2, o2 = replay_fuzz(bins[j["engine"]], tgt, ap, timeout=400, extra=["-timeout=100"])
                    if r2 != 0 and ("timeout" in o2 or r2 == -9):
                        hung += 1
                if hung < 3:
                    inconclusive.append("libFuzzer timeout artifact %s did not hang with a 10x limit (%d/3): load noise" % (fn, hung))
                    continue
                what = "parse does not terminate (reproduced 3x with a 100 s limit)"
            else:
                okc = 0
                o2 = ""
                for _ in range(3):
                    r2, o2 = replay_fuzz(bins[j["engine"]], tgt, ap)
                    if r2 != 0:
                        okc += 1
                if okc < 3:
                    notes.append("FLAKY-NOT-REPORTED %s (%d/3 reproductions)" % (ap, okc))
                    continue
                # minimise (bounded)
                mp = ap + ".min"
                replay_fuzz(bins[j["engine"]], tgt, ap, timeout=120, extra=["-minimize_crash=1", "-runs=20000", "-max_total_time=30", "-exact_artifact_path=" + mp])
                if os.path.exists(mp) and os.path.getsize(mp) <= os.path.getsize(ap):
                    r3, o3 = replay_fuzz(bins[j["engine"]], tgt, mp)
                    if r3 != 0:
                        ap, o2 = mp, o3
                heads = [l for l in o2.splitlines() if "FUZZ-VIOLATION" in l or "ERROR: AddressSanitizer" in l or "runtime error:" in l or "SUMMARY" in l]
                what = (heads[0][:300] if heads else "target aborted")
            h = hashlib.sha1(open(ap, "rb").read()).hexdigest()[:12]
            dst = os.path.join(viol_dir, "%s_%s_%s.bin" % (pid, tgt, h))
            shutil.copyfile(ap, dst)
            json.dump({"engine": j["engine"], "prop": pid, "check": pid, "fuzz_target": tgt}, open(dst + ".meta.json", "w"))
            violations.append((what, dst, ""))

    # ---- compiled tier (generated programs, g++ and clang++) -----------------------------------------
    extra_nontrivial = 0
    if spec.get("compiled"):
        from vlib import compiled as COMPILED
        cst, info = COMPILED.run(pid, tier, seed, work, viol_dir, known_ids)
        if info is None:
            return 2
        merged["evaluations"] += info["evaluations"]
        extra_nontrivial = info["nontrivial"]
        for kk, vv in info["labels"].items():
            merged["labels"]["compiled:" + kk] = vv
        merged["samples"] = (info["samples"][:3] + merged["samples"])[:8]
        merged["counters"]["compiled_programs"] = info["programs"]
        for n in info["notes"]:
            inconclusive.append(n)
        for kk, vv in info.get("excluded_known", {}).items():
            merged["excluded_known"][kk] = merged["excluded_known"].get(kk, 0) + vv
        for what, vp in info["violations"]:
            violations.append((what, vp, ""))

    wall = time.time() - t0
    minimum = spec.get("min_nontrivial", {}).get(tier, 2)
    status = 0
    for kl in known_lines:
        print(kl)
    for n in notes + inconclusive:
        print("NOTE:", n)
    seen = set()
    for e, lp, errs in build_violations:
        print("VIOLATION property=%s replay=%s" % (pid, lp))
        print("  what: %s does not compile although the control engine does: %s" % (spec["build_failure_is_violation_text"], (errs[0].strip()[:300] if errs else "")))
        status = 1
        seen.add(lp)
    for what, path, tail in violations:
        if path in seen:
            continue
        seen.add(path)
        status = 1
        if len(seen) > 6:
            continue            # every worker shrinks its own failing case; six replays are enough to read
        print("VIOLATION property=%s replay=%s" % (pid, path))
        print("  what: %s" % what)

    ev = {
        "property_id": pid, "tier": tier, "seed": seed, "level": "exploration",
        "coverage": {
            "evaluations": merged["evaluations"],
            "distinct_nontrivial": len(hashes) + extra_nontrivial,
            "rule": spec["rule"],
            "samples": merged["samples"][:6] if merged["samples"] else [{"note": "no non-trivial sample recorded"}],
            "sub_evaluations": merged["sub_evaluations"],
            "labels": merged["labels"], "counters": merged["counters"], "discards": merged["discards"],
            "excluded_known": merged["excluded_known"],
            "replayed_saved_cases": replayed,
            "known_finding_lines": known_lines,
            "inconclusive": inconclusive,
            "notes": notes,
            "workers": len(jobs) + len(fuzz_jobs),
            "exhaustive": bool(spec.get("exhaustive", False)),
        },
        "assumptions": spec.get("assumptions", []),
        "wall_s": round(wall, 2),
        "violations": len(seen),
    }
    os.makedirs(os.path.join(ROOT, "evidence"), exist_ok=True)
    with open(os.path.join(ROOT, "evidence", pid + ".json"), "w") as f:
        json.dump(ev, f, indent=1)
    print("%s tier=%s seed=%d evaluations=%d distinct_nontrivial=%d violations=%d wall=%.1fs" % (pid, tier, seed, merged["evaluations"], len(hashes) + extra_nontrivial, len(seen), wall))
    if harness_build_failed:
        for e, log in harness_build_failed:
            print("NOTE: engine %s does not build against this tree (the friend hook calls private helpers); only the generated-program job ran" % e)
        if status == 0:
            print("HARNESS-BUILD-FAILED engine=%s" % harness_build_failed[0][0])
            print(harness_build_failed[0][1][-4000:])
            return 2
        return status
    if status == 0 and len(hashes) + extra_nontrivial < minimum:
        print("HARNESS-ERROR too few non-trivial cases (%d < %d): generator starved" % (len(hashes) + extra_nontrivial, minimum))
        return 2
    return status


def cmd_replay(args):
    path = args.file
    pid = args.prop
    eng = args.engine
    eprop = None
    meta = None
    if path.endswith(".json"):
        meta = json.load(open(path))
        if meta.get("kind") in ("program", "program17", "program13", "program03"):
            from vlib import compiled as COMPILED
            return COMPILED.replay(path)
    elif os.path.exists(path + ".meta.json"):
        meta = json.load(open(path + ".meta.json"))
    if meta:
        eprop = meta.get("prop")
        eng = eng or meta.get("engine")
        pid = pid or meta.get("check")
    if not pid:
        pid = os.path.basename(path).split("_")[0]
    eprop = eprop or pid
    if not eng:
        # find the engine that serves this engine-level property name
        for cid, spec in PROPS.PROPS.items():
            for j in spec.get("jobs", []):
                if j.get("prop", cid) == eprop:
                    eng = j["engine"]
        eng = eng or PROPS.PROPS[pid]["jobs"][0]["engine"]
    ok, bp, log = BUILD.ensure(eng, REPO)
    if not ok:
        print("HARNESS-BUILD-FAILED")
        print(log[-4000:])
        return 2
    rc, out = replay_case(bp, eprop, path, [])
    print(out[-6000:] if fuzz_meta(path) else out[:6000])
    return 1 if rc not in (0, 3, 4) else 0


def cmd_setup(args):
    engines = sorted(BUILD.ENGINES.keys())
    bad = 0
    with ThreadPoolExecutor(max_workers=max(1, NCPU // 2)) as ex:
        for e, (ok, path, log) in zip(engines, ex.map(lambda e: BUILD.ensure(e, REPO), engines)):
            print("build %-14s %s" % (e, "ok" if ok else "FAILED"))
            if not ok:
                print(log[-3000:])
                bad += 1
    return 2 if bad else 0


def main():
    ap = argparse.ArgumentParser()
    sub = ap.add_subparsers(dest="cmd")
    c = sub.add_parser("check"); c.add_argument("id"); c.add_argument("--tier", default=None)
    r = sub.add_parser("replay"); r.add_argument("file"); r.add_argument("--prop", default=None); r.add_argument("--engine", default=None)
    sub.add_parser("setup")
    a = ap.parse_args()
    if a.cmd == "check":
        sys.exit(cmd_check(a))
    if a.cmd == "replay":
        sys.exit(cmd_replay(a))
    if a.cmd == "setup":
        sys.exit(cmd_setup(a))
    ap.print_help()
    sys.exit(2)


if __name__ == "__main__":
    main()
